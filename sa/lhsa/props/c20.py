"""C20 - freeing a reader releases everything, on any call history or allocation failure.

Decided (claimed in part, E6 ownership typestate on the IR):
 R1 every allocation in lib/ is NULL-checked before it is dereferenced;
 R2 every object allocated in a lib/ function is, on every path to every exit of that
    function, released, returned or handed to an owner (the NULL edge excepted);
 R3 owner completeness: every owning pointer field of the library's objects is released
    by the object's free function;
 R4 conditional ownership of LHAReader.curr_file (owned only while a re-presented
    directory / deferred symlink is current): released before it is overwritten and in the
    reader's free function, under each owning state;
 R5 every lha_file_header_add_ref is paired with storing that header into an owning list;
 R6 status of functions that fail on allocation failure is not dropped by callers.
Not decided: the exhaustive fault-injection quantifier as such.
"""
from ..context import Context
from ..report import Report
from ..facts import Facts, Matcher, ANY, is_const, const_val, describe, describe_fact
from ..rules import stores_to_field, rets, guarded_site, blocks_reachable_from
from ..callgraph import CallGraph
from ..own import Ownership, zero_alias_closure, EXT_ALLOC
from ..nullstate import NullState
from ..mem import root

RD, BR, HDR, DEC, STR = "LHAReader", "LHABasicReader", "LHAFileHeader", "LHADecoder", "LHAInputStream"
OWNERS = {RD: "lha_reader_free", BR: "lha_basic_reader_free", HDR: "lha_file_header_free", DEC: "lha_decoder_free", STR: "lha_input_stream_free"}
RELEASERS = {"free", "fclose", "lha_file_header_free", "lha_decoder_free", "lha_basic_reader_free", "lha_input_stream_free", "lha_reader_free"}
LIST_LINKS = {(HDR, "_next"): "list link: the node it points to is owned by the owner of the list head (dir_stack / deferred_symlinks)"}
TEMPLATES = {"bit_stream_reader.c", "tree_decode.c", "lh_new_decoder.c", "pma_common.c"}


def decoder_slot_rules(rep, ctx, mod, prefix=""):
    """per-member decoder objects: released and cleared by close_decoder, which runs first at every change of entry (also the
    support rule of C13's 'nothing accumulates per member')"""
    # ---- R3c close_decoder postcondition (support of the open_decoder assumption) ---------------------------------
    r3c = rep.rule(prefix + "R3c", "close_decoder leaves decoder and inner_decoder NULL on every path, and runs first in lha_reader_next_file and lha_reader_free", 4)
    cd = rep.need(r3c, mod.fn("close_decoder"), "function close_decoder")
    if cd:
        F = ctx.facts(cd)
        M = Matcher(cd)
        for f in ("decoder", "inner_decoder"):
            fld = ("load", ("field", RD, f, ("param", 0)))
            cut = F.edges_with_fact(("eq", fld, 0))
            for st in stores_to_field(mod, RD, f, [cd]):
                if is_const(st.ops[0]) and const_val(st.ops[0]) == 0:
                    cut |= {(st.block.id, x) for x in st.block.succs}
                    if not st.block.succs:
                        cut.add((st.block.id, "ret"))
            bad = []
            for r in rets(cd):
                if (r.block.id, "ret") in cut:
                    continue
                if r.block.id == 0 or F.reaches_avoiding(0, r.block.id, cut):
                    # entry block itself may contain the store
                    if not any(st.block.id == r.block.id for st in stores_to_field(mod, RD, f, [cd]) if is_const(st.ops[0]) and const_val(st.ops[0]) == 0):
                        bad.append(r)
            # a later non-NULL store would break it
            later = [st for st in stores_to_field(mod, RD, f, [cd]) if not (is_const(st.ops[0]) and const_val(st.ops[0]) == 0)]
            rep.check(r3c, not bad and not later, "close_decoder: %s is NULL at every return" % f, "%s:%s" % (cd.file, cd.line),
                      "a return is reachable with %s neither tested NULL nor cleared" % f if bad else ("non-NULL store" if later else None), function=cd.cname, obj=f)
        for caller in ("lha_reader_next_file", "lha_reader_free"):
            g = mod.fn(caller)
            if g:
                cs = list(g.calls("close_decoder"))
                # first thing the function does: nothing that calls or stores lies on any way from the entry to it
                def first(c):
                    for b in g.blocks:
                        if b.id == c.block.id or not g.dominates(b.id, c.block.id) and b.id != 0:
                            continue
                        if b.id != c.block.id and g.dominates(b.id, c.block.id) and any(i.op in ("call", "store") and not (i.callee or "").startswith("llvm.dbg") for i in b.insts):
                            return False
                    return g.dominates(c.block.id, max(x.id for x in g.blocks if x.term is not None and x.term.op == "ret")) or True
                okf = len(cs) == 1 and all(g.dominates(cs[0].block.id, r_.block.id) for r_ in rets(g)) and first(cs[0]) and \
                    not any(i.op in ("call", "store") and not (i.callee or "").startswith("llvm.dbg") and i.idx < cs[0].idx for i in cs[0].block.insts)
                rep.check(r3c, okf, "%s starts with close_decoder(reader)" % caller, g.file, None, function=caller, obj="close-first")
    # release: whatever either slot holds when close_decoder is entered has been released when it returns
    if cd:
        r3d = rep.rule(prefix + "R3d", "close_decoder releases what each decoder slot holds: every path to a return tests the slot NULL, frees it, or finds it aliased "
                                       "to the other slot and frees that", 2)
        F = ctx.facts(cd)
        M = Matcher(cd)
        slots = {f: ("load", ("field", RD, f, ("param", 0))) for f in ("decoder", "inner_decoder")}

        def out_edges(blocks):
            return {(b_, x) for b_ in blocks for x in cd.blocks[b_].succs}

        def frees(f):
            return {c.block.id for c in cd.insts() if c.op == "call" and mod.callee_cname(c) == "lha_decoder_free" and c.ops and M.match(slots[f], c.ops[0], {}) is not None}
        for f, other in (("decoder", "inner_decoder"), ("inner_decoder", "decoder")):
            nul = F.edges_with_fact(("eq", slots[f], 0))
            fr = frees(f)
            alias = F.edges_with_fact(("eq", slots[f], slots[other])) | F.edges_with_fact(("eq", slots[other], slots[f]))
            cut1 = nul | out_edges(fr) | alias
            bad = []
            for r in rets(cd):
                if r.block.id in fr:
                    continue
                if r.block.id == 0 or F.reaches_avoiding(0, r.block.id, cut1):
                    bad.append("a return is reachable with %s neither tested NULL nor released" % f)
                for (ab, at) in alias:
                    fo = frees(other)
                    cut2 = nul | out_edges(fr) | out_edges(fo)
                    if at in fo or at in fr:
                        continue
                    if at == r.block.id or F.reaches_avoiding(at, r.block.id, cut2):
                        bad.append("after finding %s == %s a return is reachable without releasing either" % (f, other))
            rep.check(r3d, not bad, "close_decoder: %s is released or known NULL at every return" % f, "%s:%s" % (cd.file, cd.line), "; ".join(sorted(set(bad))) or None,
                      function=cd.cname, obj="release-" + f)


def push_pairing_rules(rep, ctx, mod, own, owning, lib_fns, prefix=""):
    """the converse of R5, path by path: a header that is linked into an owning list of the reader while the basic reader still owns it
    (it will be released at the next advance) must have received its own reference on every path that returns with the link in place -
    otherwise the list is left holding a pointer to freed memory"""
    rid = rep.rule(prefix + "R5b", "a borrowed header linked into dir_stack / deferred_symlinks gets lha_file_header_add_ref on every path from the link to a return", 2)
    n = 0
    for fn in lib_fns:
        M = Matcher(fn)
        F = None
        for st in fn.insts():
            if st.op != "store":
                continue
            flds = own._addr_fields(fn, st.ops[1], set())
            lists = [fo for fo in flds if fo in owning and fo[0] == RD and fo[1] in ("dir_stack", "deferred_symlinks")]
            if not lists:
                continue
            v = M.strip(st.ops[0], ("bitcast",))
            dv = fn.defn(v)
            if is_const(st.ops[0]) or dv is None:
                continue
            # unlinking (the stored value comes out of a list link) is not a push
            if not dv.is_param and dv.op == "load" and any(fo[1] == "_next" or fo in lists for fo in own._addr_fields(fn, dv.ops[0], set())):
                continue
            n += 1
            F = F or ctx.facts(fn)

            def same(a):
                a = M.strip(a, ("bitcast",))
                if a == v:
                    return True
                da = fn.defn(a)
                return (da is not None and not da.is_param and not dv.is_param and da.op == "load" and dv.op == "load"
                        and own._addr_fields(fn, da.ops[0], set()) == own._addr_fields(fn, dv.ops[0], set()) and bool(own._addr_fields(fn, da.ops[0], set())))
            refs = [c for c in fn.calls("lha_file_header_add_ref") if c.ops and same(c.ops[0])]
            cut = {(c.block.id, t) for c in refs for t in fn.blocks[c.block.id].succs}
            before = any((c.block.id == st.block.id and c.idx < st.idx) for c in refs) or (bool(refs) and st.block.id != 0 and not F.reaches_avoiding(0, st.block.id, cut)
                                                                                            and not any(c.block.id == st.block.id for c in refs))
            after_same_block = any(c.block.id == st.block.id and c.idx > st.idx for c in refs)
            bad = []
            if not before and not after_same_block:
                for r in rets(fn):
                    if any(c.block.id == r.block.id for c in refs):
                        continue
                    if r.block.id == st.block.id or F.reaches_avoiding(st.block.id, r.block.id, cut):
                        bad.append(r)
            rep.check(rid, not bad, "%s: header linked into %s keeps a reference of its own" % (fn.cname, "/".join(sorted(fo[1] for fo in lists))), st.where(),
                      "a return (line %s) is reachable after the link without lha_file_header_add_ref on the linked header: the basic reader frees it at the next advance and the list dangles" % (
                          ", ".join(str(r.line()) for r in bad)) if bad else None, function=fn.cname, obj="push")
    if n == 0:
        rep.broken(rid, "no push onto dir_stack / deferred_symlinks found")


def run(tier, seed):
    rep = Report("C20", tier, "other",
                 "Static ownership analysis of lib/: (R1) each allocation result is NULL-checked before any dereference; (R2) a "
                 "typestate search over the CFG from every allocation site shows the object is released, returned or stored into "
                 "an owner on every path to every function exit, with callee consumption summaries (always / only if the callee's "
                 "result is non-NULL); (R3) owning pointer fields - inferred from the stores that put fresh allocations or "
                 "add_ref'ed headers into them - are all released by the owner's free function; (R4) the conditionally owned "
                 "current entry is released under each owning state before it is overwritten and when the reader is freed; (R5) "
                 "add_ref is paired with a store into an owning list and, conversely, a borrowed header linked into such a list receives add_ref on every path to a return; (R6) failure statuses are not dropped; an owning header field overwritten without a release is shown NULL at that store by an interprocedural typestate from the constructor (R3b); (R7) after a release of the value held by an owning field the field is rewritten or its object released on every path; (R8) a realloc result replaces the pointer it was computed from only under result != NULL; a hand-over that depends on the callee's result is not left untested at a return. Quantifies over all "
                 "paths (hence all archives and call histories) rather than over sampled runs. Not decided: the fault-injection "
                 "quantifier as such (R1 shows each failure is noticed and returned, not how every caller up the stack reacts).")
    with Context(tier) as ctx:
        from .. import selfcheck
        selfcheck.run(ctx, rep, ['own'])
        mod = ctx.plain()
        cg = CallGraph(mod)
        own = Ownership(mod, cg)
        lib_files = set(u.split("/")[1] for u in ctx.views.units if u.startswith("lib/")) | TEMPLATES
        lib_fns = [f for f in mod.defined() if f.file.split("/")[-1] in lib_files]
        rep.analysed = {"view": "plain", "lib_functions": len(lib_fns),
                        "returns_owned": sorted({mod.functions[n].cname for n in own._returns_owned})}

        # ---- R1 / R2 over allocation sites -------------------------------------------------------------
        r1 = rep.rule("R1", "every allocation result in lib/ is compared with NULL before it is dereferenced", 15)
        r2 = rep.rule("R2", "every object allocated in a lib/ function is released, returned or stored into an owner on every path to every exit", 15)
        nsites = 0
        for fn in lib_fns:
            F = None
            for i in fn.insts():
                if not own.is_alloc_call(i):
                    continue
                if mod.callee_cname(i) == "realloc":
                    pass
                nsites += 1
                F = F or ctx.facts(fn)
                cn = mod.callee_cname(i)
                bad = own.unchecked_derefs(fn, i, F)
                rep.check(r1, not bad, "%s: result of %s is NULL-checked before use" % (fn.cname, cn), i.where(),
                          "dereferenced without an available 'result != NULL' fact at %s" % bad[0].where() if bad else None,
                          function=fn.cname, obj="%s" % cn)
                leaks = own.leak_paths(fn, i, F)
                rep.check(r2, not leaks, "%s: object from %s does not leak" % (fn.cname, cn), i.where(),
                          "still owned at exit %s (path through blocks %s)" % (leaks[0][0].where(), leaks[0][1]) if leaks else None,
                          function=fn.cname, obj="%s" % cn)
        rep.extra["allocation_sites"] = nsites

        # ---- R3 owner completeness ------------------------------------------------------------------------------
        r3 = rep.rule("R3", "every owning pointer field of a library object is released by the object's free function", 6)
        sbf = own.stores_by_field()
        owning = {}
        for (S, f), sts in sbf.items():
            if S not in OWNERS or f is None:
                continue
            for st in sts:
                fn = st.fn
                fresh = own.value_is_fresh(fn, st.ops[0])
                if fresh is not None:
                    owning.setdefault((S, f), []).append("fresh %s at %s" % (mod.callee_cname(fresh), st.where()))
                    continue
                # add_ref'ed header stored: same function calls lha_file_header_add_ref on the same loaded field / value
                M = Matcher(fn)
                for c in fn.calls("lha_file_header_add_ref"):
                    a, v = M.strip(c.ops[0], ("bitcast",)), M.strip(st.ops[0], ("bitcast",))
                    same = a == v
                    if not same:
                        da, dv = fn.defn(a), fn.defn(v)
                        if da is not None and dv is not None and not da.is_param and not dv.is_param and da.op == "load" and dv.op == "load":
                            same = root(fn, da.ops[0]) == root(fn, dv.ops[0]) and own._addr_fields(fn, da.ops[0], set()) == own._addr_fields(fn, dv.ops[0], set()) \
                                and own._addr_fields(fn, da.ops[0], set())
                    if same:
                        owning.setdefault((S, f), []).append("add_ref'ed header at %s" % st.where())
        rep.extra["owning_fields"] = {"%s.%s" % k: v[:3] for k, v in sorted(owning.items())}
        expected_owning = {(RD, "reader"), (RD, "decoder"), (RD, "inner_decoder"), (RD, "dir_stack"), (RD, "deferred_symlinks"),
                           (BR, "curr_file"), (HDR, "filename"), (HDR, "path"), (HDR, "symlink_target"), (HDR, "unix_username"), (HDR, "unix_group")}
        missing = expected_owning - set(owning)
        if missing:
            rep.broken(r3, "ownership inference lost fields confirmed by hand: %s" % sorted(missing))
        for (S, f), why in sorted(owning.items()):
            if (S, f) in LIST_LINKS:
                rep.assumed(r3, "%s.%s" % (S, f), "list-link", LIST_LINKS[(S, f)])
                continue
            ff = mod.fn(OWNERS[S])
            if ff is None:
                rep.broken(r3, "free function %s missing" % OWNERS[S])
                continue
            # release call on a load of (S,f) in the free function or a callee that receives the owner
            cands = [ff] + [mod.functions[c] for c in cg.edges.get(ff.name, ()) if c in mod.functions and not mod.functions[c].decl
                            and mod.functions[c].cname not in RELEASERS]
            released = None
            for g in cands:
                Mg = Matcher(g)
                for c in g.insts():
                    if c.op == "call" and mod.callee_cname(c) in RELEASERS and c.ops:
                        if Mg.match(("load", ("field", S, f, ANY)), c.ops[0], {}) is not None:
                            released = c
                        else:
                            # list walk: value loaded into a local from the field, then released
                            for s_, fs_ in ctx.facts(g).sources(c.ops[0]):
                                if Mg.match(("load", ("field", S, f, ANY)), s_, {}) is not None:
                                    released = c
            if released is None:
                # the address of the field is handed to a helper that releases what the cell holds: helper(&obj->field) with release(*param)
                for g in cands:
                    Mg = Matcher(g)
                    for c in g.insts():
                        if c.op != "call" or not c.callee or c.callee not in mod.functions or mod.functions[c.callee].decl:
                            continue
                        h = mod.functions[c.callee]
                        for k, a in enumerate(c.ops[:len(h.params)]):
                            if Mg.match(("field", S, f, ANY), a, {}) is None:
                                continue
                            Mh = Matcher(h)
                            for c2 in h.insts():
                                if c2.op == "call" and mod.callee_cname(c2) in RELEASERS and c2.ops:
                                    for s_, fs_ in ctx.facts(h).sources(c2.ops[0]):
                                        if Mh.match(("load", ("param", k)), s_, {}) is not None:
                                            released = c2
            rep.check(r3, released is not None, "%s.%s (owning: %s) is released by %s" % (S, f, why[0], OWNERS[S]),
                      "%s:%s" % (ff.file, ff.line), "no release of this field in %s or the helpers it calls" % OWNERS[S],
                      function=OWNERS[S], obj="%s.%s" % (S, f))

        # ---- R3b overwrite discipline ---------------------------------------------------------------------------
        r3b = rep.rule("R3b", "an owning field is overwritten only if its old value was released, moved, known NULL or aliased to another owning field (or the object is being constructed)", 12)
        ASSUME_NULL_BEFORE = {
            ("open_decoder", RD, "inner_decoder"): "decoder fields are NULL whenever a decode operation starts: close_decoder runs at every lha_reader_next_file and establishes it (support rule R3c); one decode operation per member is the property's precondition",
            ("open_decoder", RD, "decoder"): "as above (support rule R3c)",
        }
        # fields of an object under construction: NULL-ness decided by an interprocedural typestate from the constructor (nullstate.py)
        CONSTRUCTORS = {HDR: "lha_file_header_read"}
        nullstates = {}

        def null_by_construction(fn, st, S, f):
            """(ok, detail): the store is only ever executed beneath the constructor of S, and on every path from the constructor's
            entry through every call chain the field is still NULL there"""
            ctor = mod.fn(CONSTRUCTORS[S]) if S in CONSTRUCTORS else None
            if ctor is None:
                return False, None
            # every invocation of fn happens beneath the constructor
            seen, todo = set(), [fn.name]
            while todo:
                g = todo.pop()
                if g in seen or g == ctor.name:
                    continue
                seen.add(g)
                gf = mod.functions.get(g)
                if gf is None or not gf.internal or g in cg.addr_taken:
                    return False, "%s can be entered from outside %s" % (gf.cname if gf else g, ctor.cname)
                cs = cg.callers(g)
                if not cs:
                    return False, "%s has no caller beneath %s" % (gf.cname, ctor.cname)
                todo.extend(cs)
            if (S, f) not in nullstates:
                ns = NullState(mod, cg, S, f)
                ns.analyse(ctor, "N")
                nullstates[(S, f)] = ns
            got = nullstates[(S, f)].at_store.get((fn.name, st.id))
            if not got:
                return False, "the store is not reached from %s" % ctor.cname
            if set(got) == {"N"}:
                return True, "NULL on every path from the entry of %s (interprocedural typestate over %d analysed function states)" % (ctor.cname, len(nullstates[(S, f)]._memo))
            chain = got.get("M") or ()
            return False, "the field may already hold a block when this store runs, e.g. via %s" % " -> ".join("%s@%s" % (a, b.split(" ")[0]) for a, b in chain)
        n3b = 0
        for (S, f) in sorted(owning):
            if (S, f) in LIST_LINKS or (S, f) == (RD, "curr_file"):
                continue
            for st in sbf.get((S, f), []):
                fn = st.fn
                if fn.file.split("/")[-1] not in lib_files:
                    continue
                F = ctx.facts(fn)
                M = Matcher(fn)
                n3b += 1
                inst = "%s: store to %s.%s" % (fn.cname, S, f)
                old = ("load", ("field", S, f, ANY))
                addr = M.strip(st.ops[1], ("bitcast",))
                if addr[0] == "v" and fn.defn(addr) is not None and not fn.defn(addr).is_param and fn.defn(addr).op == "phi":
                    # store through a cursor (`*rover = x`): the old value is what the cursor pointed at
                    old = ("load", ("inst", addr[1]))
                # (a) constructor: the object is allocated in this function
                gep = fn.defn(M.strip(st.ops[1], ("bitcast",)))
                base_root = root(fn, st.ops[1])
                if base_root[0] == "call" and own.is_alloc_call(fn.vals[base_root[1]]):
                    rep.ok(r3b, inst + " (constructor)", None, st.where())
                    continue
                if base_root[0] == "load":
                    rr = root(fn, fn.vals[base_root[1]].ops[0])
                    if rr[0] == "alloca" and own.value_is_fresh(fn, ("v", base_root[1])) is not None and fn.cname in ("lha_file_header_read",):
                        rep.ok(r3b, inst + " (constructor)", None, st.where())
                        continue
                # no-op / re-store of the same field value
                if M.match(old, st.ops[0], {}) is not None and f not in ("dir_stack", "deferred_symlinks"):
                    rep.ok(r3b, inst + " (same value)", None, st.where())
                    continue
                # (b) cut set before the store
                cut = F.edges_with_fact(("eq", old, 0))
                for (S2, f2) in owning:
                    if S2 == S and f2 != f:
                        cut |= F.edges_with_fact(("eq", old, ("load", ("field", S, f2, ANY))))
                for c in fn.insts():
                    if c.op == "call" and mod.callee_cname(c) in RELEASERS | {"realloc"} and c.ops and M.match(old, c.ops[0], {}) is not None:
                        cut |= {(c.block.id, x) for x in c.block.succs} if not (c.block.id == st.block.id) else set()
                        if c.block.id == st.block.id and c.idx < st.idx:
                            cut |= {(p_, st.block.id) for p_ in st.block.preds} | {("entry", st.block.id)}
                    # moved: the old value is stored elsewhere (another field / list link) before
                    if c.op == "store" and c is not st and M.match(old, c.ops[0], {}) is not None:
                        if c.block.id == st.block.id and c.idx < st.idx:
                            cut |= {(p_, st.block.id) for p_ in st.block.preds} | {("entry", st.block.id)}
                        elif c.block.id != st.block.id:
                            cut |= {(c.block.id, x) for x in c.block.succs}
                before_ok = ("entry", st.block.id) in cut or (st.block.id != 0 and not F.reaches_avoiding(0, st.block.id, cut))
                # (c) the old value, loaded before, is released after the store on every path
                after_ok = False
                for l in fn.insts():
                    if l.op == "load" and M.match(old, ("v", l.id), {}) is not None and (fn.dominates(l.block.id, st.block.id)) and \
                            (l.block.id != st.block.id or l.idx < st.idx):
                        fake_leaks = own.leak_paths(fn, l, F)
                        # leak_paths starts right after the load; acceptable if no exit is reachable with the old value still owned
                        if not fake_leaks:
                            after_ok = True
                nbc, nbc_detail = (False, None) if (before_ok or after_ok) else null_by_construction(fn, st, S, f)
                if before_ok or after_ok:
                    rep.ok(r3b, inst, "old value released/moved/NULL %s" % ("before" if before_ok else "after"), st.where())
                elif nbc:
                    rep.ok(r3b, inst + " (NULL by construction)", nbc_detail, st.where())
                elif nbc_detail:
                    rep.violation(r3b, inst, st.where(), "the old value of the owning field can still be live when it is overwritten: " + nbc_detail, function=fn.cname, obj="%s.%s" % (S, f))
                elif (fn.cname, S, f) in ASSUME_NULL_BEFORE:
                    rep.assumed(r3b, inst, "A-null-before:%s.%s@%s" % (S, f, fn.cname), ASSUME_NULL_BEFORE[(fn.cname, S, f)], st.where())
                else:
                    rep.violation(r3b, inst, st.where(), "the old value of the owning field can still be live when it is overwritten (no release, move, NULL test or alias test on some path)",
                                  function=fn.cname, obj="%s.%s" % (S, f))
        decoder_slot_rules(rep, ctx, mod)

        # ---- R4 conditional ownership of LHAReader.curr_file ------------------------------------------------------
        r4 = rep.rule("R4", "LHAReader.curr_file, owned while a re-presented directory / deferred symlink is current, is released under each owning state before being overwritten and in lha_reader_free", 4)
        nf = rep.need(r4, mod.fn("lha_reader_next_file"), "function lha_reader_next_file")
        fr = rep.need(r4, mod.fn("lha_reader_free"), "function lha_reader_free")
        owning_states = {}
        if nf:
            M = Matcher(nf)
            for st in stores_to_field(mod, RD, "curr_file", [nf]):
                for (S, f) in list(owning):
                    if S != RD:
                        continue
                    if M.match(("load", ("field", RD, f, ("param", 0))), st.ops[0], {}) is not None:
                        # the reference moves if, on every path from this store to a return, the list head is advanced and one and the
                        # same entry-type constant is stored (same block, or blocks this one dominates that no return can bypass)
                        Fn = ctx.facts(nf)

                        def after(cands):
                            c2 = [x for x in cands if (x.block.id == st.block.id and x.idx > st.idx) or (x.block.id != st.block.id and nf.dominates(st.block.id, x.block.id))]
                            if any(x.block.id == st.block.id for x in c2):
                                return c2
                            cut = set()
                            for x in c2:
                                cut |= {(x.block.id, y) for y in x.block.succs} | ({(x.block.id, "ret")} if not x.block.succs else set())
                            if c2 and not any((r.block.id, "ret") not in cut and Fn.reaches_avoiding(st.block.id, r.block.id, cut) for r in rets(nf)):
                                return c2
                            return []
                        adv = after(stores_to_field(mod, RD, f, [nf]))
                        tys = after([x for x in stores_to_field(mod, RD, "curr_file_type", [nf]) if is_const(x.ops[0])])
                        if adv and tys and len({const_val(x.ops[0]) for x in tys}) == 1:
                            owning_states[const_val(tys[0].ops[0])] = "taken from %s at %s" % (f, st.where())
            names = {v: k for k, v in mod.enums.items() if k.startswith("CURR_FILE_")}
            rep.extra["curr_file_owning_states"] = {names.get(k, k): v for k, v in owning_states.items()}
            if len(owning_states) < 2:
                rep.broken(r4, "expected two owning states (FAKE_DIR, DEFERRED_SYMLINK), inferred %s" % owning_states)
            for fn_, what in ((nf, "overwrite"), (fr, "free")):
                if fn_ is None:
                    continue
                F = ctx.facts(fn_)
                Mx = Matcher(fn_)
                ctype = ("load", ("field", RD, "curr_file_type", ("param", 0)))
                curr = ("load", ("field", RD, "curr_file", ("param", 0)))
                if what == "overwrite":
                    # (a store that follows a release of the field's value in its own block - `free(r->curr_file); r->curr_file = NULL;` - overwrites
                    # nothing that is still owned)
                    def released_before(s_):
                        return any(c.op == "call" and mod.callee_cname(c) == "lha_file_header_free" and Mx.match(curr, c.ops[0], {}) is not None and c.idx < s_.idx
                                   for c in s_.block.insts)
                    targets = [s.block.id for s in stores_to_field(mod, RD, "curr_file", [fn_]) if not released_before(s)]
                else:
                    targets = [c.block.id for c in fn_.insts() if c.op == "call" and mod.callee_cname(c) == "free" and Mx.match(("param", 0), c.ops[0], {}) is not None]
                if not targets:
                    rep.broken(r4, "no %s site found in %s" % (what, fn_.cname))
                for K, why in sorted(owning_states.items()):
                    # paths consistent with 'curr_file_type == K': drop edges that refute it (type != K, or type == K' for
                    # another constant K'); on what remains every path to the target must pass a release of curr_file
                    cut = F.edges_refuting(ctype, K)
                    for c in fn_.insts():
                        if c.op == "call" and mod.callee_cname(c) == "lha_file_header_free" and Mx.match(curr, c.ops[0], {}) is not None:
                            cut |= {(c.block.id, s) for s in c.block.succs}
                    leak = [t for t in targets if F.reaches_avoiding(0, t, cut)]
                    rep.check(r4, not leak, "%s: current entry in state %s is released before the %s" % (fn_.cname, names.get(K, K), what),
                              "%s:%s" % (fn_.file, fn_.line), "the %s is reachable with curr_file_type == %s without lha_file_header_free(curr_file) (%s)" % (what, names.get(K, K), why),
                              function=fn_.cname, obj="curr_file:%s" % names.get(K, K))

        # ---- R5 add_ref pairing ----------------------------------------------------------------------------------------------
        r5 = rep.rule("R5", "every lha_file_header_add_ref(h) is paired, in the same function, with storing h into an owning list", 2)
        for fn in lib_fns:
            M = Matcher(fn)
            for c in fn.calls("lha_file_header_add_ref"):
                a = M.strip(c.ops[0], ("bitcast",))
                paired = False
                for i in fn.insts():
                    if i.op == "store":
                        flds = own._addr_fields(fn, i.ops[1], set())
                        if any(fo in owning and fo[1] != "curr_file" for fo in flds):
                            v = M.strip(i.ops[0], ("bitcast",))
                            da, dv = fn.defn(a), fn.defn(v)
                            if v == a or (da is not None and dv is not None and not da.is_param and not dv.is_param and da.op == "load" and dv.op == "load"
                                          and own._addr_fields(fn, da.ops[0], set()) == own._addr_fields(fn, dv.ops[0], set()) and own._addr_fields(fn, da.ops[0], set())):
                                paired = True
                rep.check(r5, paired, "%s: add_ref paired with a store into an owning list" % fn.cname, c.where(), None, function=fn.cname, obj="add_ref")

        push_pairing_rules(rep, ctx, mod, own, owning, lib_fns)

        # ---- R7 no dangling owning field ------------------------------------------------------------------------------------------
        # Releasing what an owning field holds and returning with the field still pointing there hands the next release of the owner
        # (close_decoder, the object's free function, the next overwrite) a pointer that was already freed.
        r7 = rep.rule("R7", "after a release of the value held by an owning field, the field is overwritten (NULL or a new owner) on every path to a return, "
                            "unless the object that contains the field is itself released on that path", 8)
        nrel = 0
        for fn in lib_fns:
            Mf = None
            for c in fn.insts():
                if c.op != "call" or mod.callee_cname(c) not in RELEASERS or not c.ops:
                    continue
                Mf = Mf or Matcher(fn)
                Ff = ctx.facts(fn)
                hits = []
                for s_, _fs in Ff.sources(c.ops[0]):
                    for (S, f) in owning:
                        if (S, f) in LIST_LINKS:
                            continue
                        e = Mf.match(("load", ("field", S, f, ("bind", "obj"))), s_, {})
                        if e is not None:
                            hits.append((S, f, e["obj"], s_))
                for S, f, obj, ld in hits:
                    nrel += 1
                    # edges after which the field has been rewritten, or the containing object released
                    cut = set()
                    objs = Mf.strip(obj, ("bitcast",))
                    for st in stores_to_field(mod, S, f, [fn]):
                        e2 = Mf.match(("field", S, f, ("bind", "o2")), st.ops[1], {})
                        if e2 is not None and (Mf.strip(e2["o2"], ("bitcast",)) == objs or Mf.equiv(e2["o2"], obj)):
                            if st.block.id == c.block.id and st.idx < c.idx:
                                continue                    # a store before the release in the same block does not cover it
                            cut |= {(st.block.id, x) for x in st.block.succs} | ({(st.block.id, "ret")} if not st.block.succs else set())
                    for c2 in fn.insts():
                        if c2.op == "call" and mod.callee_cname(c2) in RELEASERS and c2.ops and c2.id != c.id and \
                                (Mf.strip(c2.ops[0], ("bitcast",)) == objs or Mf.equiv(c2.ops[0], obj)):
                            cut |= {(c2.block.id, x) for x in c2.block.succs} | ({(c2.block.id, "ret")} if not c2.block.succs else set())
                    same_block_after = any((b_, x) in cut for (b_, x) in cut if b_ == c.block.id) and any(
                        (i.op == "store" or i.op == "call") and i.idx > c.idx and i.block.id == c.block.id and
                        ((i.op == "store" and Mf.match(("field", S, f, ANY), i.ops[1], {}) is not None) or
                         (i.op == "call" and mod.callee_cname(i) in RELEASERS and i.ops and Mf.strip(i.ops[0], ("bitcast",)) == objs)) for i in c.block.insts)
                    bad = None
                    if not same_block_after:
                        for rt in rets(fn):
                            if (rt.block.id, "ret") in cut and rt.block.id != c.block.id:
                                continue
                            if rt.block.id == c.block.id or Ff.reaches_avoiding(c.block.id, rt.block.id, cut, start_after=c):
                                bad = rt
                                break
                    rep.check(r7, bad is None, "%s: %s.%s released by %s is rewritten (or its object released) before every return" % (fn.cname, S, f, mod.callee_cname(c)),
                              c.where(), None if bad is None else "the return at line %s is reachable with %s.%s still holding the released pointer: the next release of it frees the block again" % (
                                  bad.line(), S, f), function=fn.cname, obj="dangling-%s.%s" % (S, f))
        rep.extra["field_release_sites"] = nrel

        # ---- R8 realloc over the only reference ------------------------------------------------------------------------------------
        # `p = realloc(p, n)`: when it fails the old block is still allocated and p was its only reference.  The slot the old pointer
        # was loaded from may receive the result only where the result is known to be non-NULL.
        r8 = rep.rule("R8", "the result of realloc is stored over the slot the old pointer came from only under the fact that it is not NULL", 1)
        nre8 = 0
        for fn in lib_fns:
            Mf = Matcher(fn)
            for c in fn.calls("realloc"):
                nre8 += 1
                Ff = ctx.facts(fn)
                old = Mf.strip(c.ops[0], ("bitcast",))
                dold = fn.defn(old)
                if dold is None or dold.is_param or dold.op != "load":
                    rep.ok(r8, "%s: realloc of a value that is not loaded from a slot (nothing to overwrite)" % fn.cname, None, c.where())
                    continue
                slot = Mf.strip(dold.ops[0], ("bitcast",))
                # values that are the result (through casts / phis that merge it with nothing else)
                res = {c.id}
                changed = True
                while changed:
                    changed = False
                    for i in fn.insts():
                        if i.id in res:
                            continue
                        if i.op in ("bitcast",) and i.ops[0][0] == "v" and i.ops[0][1] in res:
                            res.add(i.id); changed = True
                bad = []
                for st in fn.insts():
                    if st.op == "store" and st.ops[0][0] == "v" and st.ops[0][1] in res and (Mf.strip(st.ops[1], ("bitcast",)) == slot or Mf.equiv(st.ops[1], dold.ops[0])):
                        if Mf.find_fact(("ne", ("inst", c.id), 0), Ff.at_inst(st))[0] is None:
                            bad.append(st)
                rep.check(r8, not bad, "%s: the reallocated pointer replaces the old one only when non-NULL" % fn.cname, c.where(),
                          None if not bad else "stored back at %s before the NULL test: on failure the old block leaks and the slot holds NULL" % bad[0].where(),
                          function=fn.cname, obj="realloc-slot")
        rep.check(r8, nre8 >= 1, "realloc sites found", "lib/", "%d" % nre8, function="realloc", obj="sites")

        # ---- R6 dropped failure status ------------------------------------------------------------------------------------------
        r6 = rep.rule("R6", "the status of a lib/ function that reports allocation failure by its return value is not dropped by its callers", 10)
        # functions that can fail because an allocation failed: return 0/NULL on an edge 'alloc == NULL'
        can_fail = set()
        changed = True
        while changed:
            changed = False
            for fn in lib_fns:
                if fn.name in can_fail or fn.ret != "i32":
                    continue
                F = ctx.facts(fn)
                for r in rets(fn):
                    if not r.ops:
                        continue
                    for s, fs in F.sources(r.ops[0]):
                        ds = fn.defn(s)
                        if ds is not None and not ds.is_param and ds.op == "call":
                            tg = [ds.callee] if ds.callee else [t for (ins, rs, how) in cg.indirect if ins is ds for t in rs]
                            if any(t in can_fail for t in tg) and fn.name not in can_fail:
                                can_fail.add(fn.name)
                                changed = True
                        if is_const(s) and const_val(s) == 0:
                            for f in fs:
                                if f[0] == "eq" and is_const(f[2]) and const_val(f[2]) == 0:
                                    d = fn.defn(Matcher(fn).strip(f[1]))
                                    if d is not None and not d.is_param and d.op == "call" and (own.is_alloc_call(d) or (d.callee in can_fail)
                                                                                                 or mod.callee_cname(d) in ("lha_file_header_full_path",)):
                                        if fn.name not in can_fail:
                                            can_fail.add(fn.name)
                                            changed = True
        rep.extra["functions_failing_on_allocation"] = sorted(mod.functions[n].cname for n in can_fail)
        for fn in lib_fns:
            for c in fn.insts():
                if c.op != "call":
                    continue
                targets = [c.callee] if c.callee else [t for (ins, rs, how) in cg.indirect if ins is c for t in rs]
                if not any(t in can_fail for t in targets):
                    continue
                used = bool(fn.users(c.id))
                rep.check(r6, used, "%s: status of %s is used" % (fn.cname, mod.callee_cname(c) or "indirect call to a decoder/extension callback"), c.where(),
                          "the return value is discarded, so an allocation failure inside the callee is silently dropped", function=fn.cname,
                          obj="%s" % (mod.callee_cname(c) or "indirect"))
    return rep.finish(seed)
