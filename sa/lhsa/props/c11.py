"""C11 - returned paths never contain '.', '..' or empty components; names contain no '/'.

Decided (claimed in part):
 R1 file-name provenance: every value stored to LHAFileHeader.filename is NULL, the
    buffer of a byte loop that leaves no '/' in it, strdup(strrchr(filename,'/')+1), or is
    followed on every path by split_header_filename, whose post-condition is "no '/'";
 R1b nothing else writes bytes into a file name (tolower in the all-caps folding is a
    named assumption);
 R2 separator normalisation loops ('\\' -> '/', 0xFF -> '/') cover every byte and the path
    extended header always ends in a separator;
 R3 sanitiser-last: every header returned with a non-NULL path went through
    collapse_path(header->path), and nothing that can write the path runs after it.
 R5 collapse_path conforms to the component transducer (E9 SCAN): every path through one
    iteration of its loop is a copy / accept / drop / pop move, an accept only under facts that
    exclude "", "." and ".." for the component just closed, a pop only to a component boundary.
NOT decided: a sanitiser written over indices or with another algorithm is reported as not
recognised (exit 1), not analysed.
"""
from ..context import Context
from ..report import Report
from ..facts import Facts, Matcher, ANY, is_const, const_val, describe, describe_fact
from ..rules import stores_to_field, rets, guarded_site, success_edges, blocks_reachable_from, require_on_success
from ..bytemap import find_byte_loops, find_search_replace, _ranges
from ..callgraph import CallGraph
from ..mem import root

HDR = "LHAFileHeader"
SLASH, BSLASH = 0x2f, 0x5c


LIBC_WRITERS = {"memmove", "memcpy", "memset", "strcpy", "strncpy", "strcat", "strncat", "sprintf", "snprintf", "vsprintf", "vsnprintf", "stpcpy", "mempcpy", "bcopy"}


def _libc_writer(name):
    if not name:
        return False
    if name.startswith("llvm.mem"):
        return True
    return name.lstrip("_").replace("_chk", "") in LIBC_WRITERS or name in LIBC_WRITERS


def byte_store_functions(mod, cg, fields):
    """functions that store single bytes through a pointer loaded from one of the header fields,
    directly or through a parameter that receives such a pointer"""
    direct = {}
    param_writers = {}   # (fn name, param index) -> [stores]
    for fn in mod.defined():
        M = Matcher(fn)
        for st in fn.insts():
            if st.op == "call" and st.ops and _libc_writer(mod.callee_cname(st)):
                dst = st.ops[0]          # a libc routine that writes through its first argument counts as a byte store there
            elif st.op == "store" and st.size == 1:
                dst = st.ops[1]
            else:
                continue
            r = root(fn, dst)
            if r[0] == "load":
                ld = fn.vals[r[1]]
                for f in fields:
                    if M.match(("load", ("field", HDR, f, ANY)), ("v", ld.id), {}) is not None:
                        direct.setdefault((fn.name, f), []).append(st)
            elif r[0] == "param":
                param_writers.setdefault((fn.name, r[1]), []).append(st)
            elif r[0] == "phi":
                # pointer walked by a loop: find the phi's non-loop origin
                seen = set()
                work = [("v", r[1])]
                while work:
                    o = work.pop()
                    d = fn.defn(o)
                    if d is None or d.id in seen:
                        continue
                    seen.add(d.id)
                    if d.is_param:
                        param_writers.setdefault((fn.name, d.index), []).append(st)
                    elif d.op == "phi":
                        work.extend(v for v, _ in d.incoming)
                    elif d.op in ("getelementptr", "bitcast"):
                        work.append(d.ops[0])
                    elif d.op == "load":
                        for f in fields:
                            if M.match(("load", ("field", HDR, f, ANY)), ("v", d.id), {}) is not None:
                                direct.setdefault((fn.name, f), []).append(st)
    # calls passing load(field) to a parameter writer
    via = {}
    for fn in mod.defined():
        M = Matcher(fn)
        for c in fn.insts():
            if c.op == "call" and c.callee:
                for k, a in enumerate(c.ops):
                    if (c.callee, k) in param_writers:
                        for f in fields:
                            if M.match(("load", ("field", HDR, f, ANY)), a, {}) is not None:
                                via.setdefault((c.callee, f), []).append(c)
    return direct, via


def name_path_rules(rep, ctx, mod, cg, prefix=""):
    """the rules of C11 (file names free of '/', sanitiser-last, collapse_path conformance); also run inside C10, whose confinement argument
    rests on them (a name with a separator or a path with '..' is joined to the extraction directory as it stands)"""
    # ---- R1 filename provenance ------------------------------------------------------------------------------
    rid = rep.rule(prefix + "R1", "every store to LHAFileHeader.filename is NULL, a '/'-free buffer, the tail after the last '/', or is followed by split_header_filename", 4)
    sp = rep.need(rid, mod.fn("split_header_filename"), "function split_header_filename")
    nstores = 0
    for fn in mod.defined():
        sts = stores_to_field(mod, HDR, "filename", [fn])
        if not sts:
            continue
        F = ctx.facts(fn)
        M = Matcher(fn)
        loops = None
        for st in sts:
            nstores += 1
            v = st.ops[0]
            inst = "%s: filename = %s" % (fn.cname, describe(fn, v, 2))
            if is_const(v) and const_val(v) == 0:
                rep.ok(rid, inst + " (NULL)", None, st.where())
                continue
            # tail after the last '/'
            if M.match(("call", "strdup", [("gep", ("call", "strrchr", [("load", ("field", HDR, "filename", ANY)), SLASH]), [1])]), v, {}) is not None:
                rep.ok(rid, inst + " (tail after the last '/')", None, st.where())
                continue
            # followed by split_header_filename on every path to a successful return
            after = blocks_reachable_from(fn, [st.block.id])
            splits = [c for c in fn.calls("split_header_filename") if c.block.id in after]
            if splits:
                cut = set()
                for c in splits:
                    cut |= {(c.block.id, s) for s in c.block.succs}
                    if not c.block.succs:
                        cut.add((c.block.id, "ret"))
                bad = []
                for vv, pb, b in success_edges(F, fn):
                    tgt = pb if pb is not None else b
                    if any(c.block.id == tgt for c in splits):
                        continue
                    if tgt == st.block.id or F.reaches_avoiding(st.block.id, tgt, cut):
                        bad.append(tgt)
                rep.check(rid, not bad, inst + " (then split_header_filename on every successful path)", st.where(),
                          "a successful return (bb%s) is reachable from the store without split_header_filename" % bad if bad else None,
                          function=fn.cname, obj="filename-store")
                continue
            # a buffer sanitised by a byte loop in this function
            loops = loops if loops is not None else find_byte_loops(fn, F)
            ok = False
            for bl in loops:
                if bl.base is not None and M.equiv(M.strip(bl.base, ("bitcast",)), M.strip(v, ("bitcast",))) and bl.start_ok and bl.step_ok and bl.exit == "nul" \
                        and bl.unvisited_ok and SLASH not in bl.final_values and fn.dominates(bl.loop["header"], st.block.id):
                    ok = True
                    rep.sample({"loop": fn.cname, "paths": bl.path_detail, "final_values": _ranges(bl.final_values)})
            if not ok:
                # the same with the library's search function: for (p = strchr(buf, '/'); p != NULL; p = strchr(p, '/')) *p = '_';
                for sr in find_search_replace(fn, F):
                    if sr.kind == "strchr" and sr.byte == SLASH and sr.repl != SLASH and M.equiv(M.strip(sr.start, ("bitcast",)), M.strip(v, ("bitcast",))) and \
                            fn.dominates(sr.loop["header"], st.block.id):
                        ok = True
                        rep.sample({"loop": fn.cname, "form": "strchr search-and-replace of '/' by 0x%02x" % sr.repl})
            if not ok:
                # scrub after the store: a byte loop over header->filename itself (read back through the field), from its first byte to the
                # NUL, leaving no '/', on every path from the store to a successful return
                for bl in loops:
                    if bl.base is None or M.match(("load", ("field", HDR, "filename", ANY)), bl.base, {}) is None:
                        continue
                    if not (bl.start_ok and bl.step_ok and bl.exit == "nul" and bl.unvisited_ok and SLASH not in bl.final_values):
                        continue
                    cut = set(bl.loop["exits"])
                    bad = []
                    for vv, pb, b in success_edges(F, fn):
                        tgt = pb if pb is not None else b
                        if tgt in bl.loop["body"]:
                            bad.append(tgt)
                        elif tgt == st.block.id or F.reaches_avoiding(st.block.id, tgt, cut):
                            bad.append(tgt)
                    if not bad and bl.loop["header"] in after:
                        ok = True
                        rep.sample({"loop": fn.cname, "paths": bl.path_detail, "final_values": _ranges(bl.final_values), "form": "scrub after the store"})
            rep.check(rid, ok, inst + " (buffer left without '/' by a loop over all its bytes)", st.where(),
                      "no sanitising loop over the stored buffer proves the absence of '/'", function=fn.cname, obj="filename-store")
    if sp:
        M = Matcher(sp)
        # post-condition of split: strrchr(filename, '/') is what decides; on NULL nothing contains '/'
        calls = list(sp.calls("strrchr"))
        rep.check(rid, len(calls) == 1 and M.match(("load", ("field", HDR, "filename", ("param", 0))), calls[0].ops[0], {}) is not None and const_val(calls[0].ops[1]) == SLASH,
                  "split_header_filename searches the LAST '/' of header->filename", sp.file, None, function=sp.cname, obj="strrchr")
        F = ctx.facts(sp)
        for st in stores_to_field(mod, HDR, "filename", [sp]):
            guarded_site(rep, rid, ctx, st, [("a '/' was found", ("ne", ("call", "strrchr", [ANY, SLASH]), 0))])
        # path gets the old buffer cut right after that '/'
        cutst = [s for s in sp.insts() if s.op == "store" and s.size == 1 and is_const(s.ops[0]) and const_val(s.ops[0]) == 0 and
                 M.match(("gep", ("call", "strrchr", [ANY, SLASH]), [1]), s.ops[1], {}) is not None]
        rep.check(rid, len(cutst) == 1, "the old buffer is terminated right after the last '/' (it becomes the path)", sp.file, None, function=sp.cname, obj="cut")
        # post-condition "no '/' in filename": whenever a '/' was found the split happens - a successful return that keeps the old filename
        # (no store of the tail) is possible only under strrchr(...) == NULL
        sts_ = stores_to_field(mod, HDR, "filename", [sp])
        cut_ = set()
        for st_ in sts_:
            cut_ |= {(st_.block.id, x) for x in st_.block.succs} | ({(st_.block.id, "ret")} if not st_.block.succs else set())
        for b_ in sp.blocks:
            for x_ in b_.succs:
                if M.find_fact(("eq", ("call", "strrchr", [ANY, SLASH]), 0), F.edge_facts(b_.id, x_))[0] is not None:
                    cut_.add((b_.id, x_))
                # (no name at all: nothing that could contain a '/')
                if M.find_fact(("eq", ("load", ("field", HDR, "filename", ANY)), 0), F.edge_facts(b_.id, x_))[0] is not None:
                    cut_.add((b_.id, x_))
        bad_ = []
        for vv, pb, b in success_edges(F, sp):
            tgt = pb if pb is not None else b
            if any(st_.block.id == tgt for st_ in sts_):
                continue
            if F.reaches_avoiding(0, tgt, cut_) or (tgt == 0 and not any(e_[0] == 0 for e_ in cut_ if (0, b) == e_ or pb is None)):
                bad_.append(tgt)
        rep.check(rid, not bad_ and bool(sts_), "split_header_filename returns success without splitting only when no '/' was found", sp.file,
                  None if not bad_ else "a successful return (bb%s) is reachable with a '/' found and the name left as it is: the returned file name can contain '/'" % bad_,
                  function=sp.cname, obj="always-split")
    rep.check(rid, nstores >= 4, "filename stores found", "lib/", "%d" % nstores, function="filename", obj="count")

    # ---- R1b other byte writers -----------------------------------------------------------------------------------
    rid = rep.rule(prefix + "R1b", "bytes of a file name / path are written only by the listed normalisation functions", 3)
    direct, via = byte_store_functions(mod, cg, ("filename", "path"))
    allowed = {
        ("process_level0_path", "filename"): "backslash -> '/' before the split (R2)",
        ("split_header_filename", "filename"): "NUL written after the last '/' (the prefix becomes the path)",
        ("fix_msdos_allcaps", "filename"): "assumption A-tolower",
        ("fix_msdos_allcaps", "path"): "runs before collapse_path (R3)",
        ("collapse_path", "path"): "the sanitiser itself",
    }
    seenw = set()
    for (fname, f), sts in list(direct.items()) + list(via.items()):
        cn = mod.functions[fname].cname
        seenw.add((cn, f))
        if (cn, f) in allowed:
            if allowed[(cn, f)].startswith("assumption"):
                rep.assumed(rid, "%s writes %s bytes" % (cn, f), "A-tolower", "libc tolower() maps only 'A'-'Z' (to 'a'-'z'): it cannot introduce '/' into a file name", sts[0].where())
            else:
                rep.ok(rid, "%s writes %s bytes: %s" % (cn, f, allowed[(cn, f)]), None, sts[0].where())
        elif f == "filename" and all(st.op == "store" and is_const(st.ops[0]) and const_val(st.ops[0]) is not None and (const_val(st.ops[0]) & 0xFF) not in (SLASH,) for st in sts):
            rep.ok(rid, "%s writes %s bytes: only constants other than '/' (cannot introduce a separator)" % (cn, f), None, sts[0].where())
        else:
            rep.violation(rid, "%s writes bytes of header->%s" % (cn, f), sts[0].where(), "a function outside the listed normalisers modifies name/path bytes",
                          function=cn, obj=f)

    # ---- R2 separator loops ------------------------------------------------------------------------------------------
    rid = rep.rule(prefix + "R2", "separator normalisation loops visit every byte of the buffer; the path extended header always ends with a separator", 4)
    pl = rep.need(rid, mod.fn("process_level0_path"), "function process_level0_path")
    if pl:
        F = ctx.facts(pl)
        M = Matcher(pl)
        loops = find_byte_loops(pl, F)
        ok = [bl for bl in loops if bl.start_ok and bl.step_ok and bl.exit == "counted" and bl.unvisited_ok and BSLASH not in bl.final_values
              and M.strip(bl.bound) == ("v", pl.params[2].id)]
        srs = [sr for sr in find_search_replace(pl, F) if sr.kind == "memchr" and sr.byte == BSLASH and sr.repl == SLASH and sr.length is not None and
               M.strip(sr.length) == ("v", pl.params[2].id)]
        if not ok and len(srs) == 1:
            # while ((p = memchr(p, '\\\\', end - p)) != NULL) *p++ = '/';  over [buf, buf + data_len)
            rep.ok(rid, "in-header names: every '\\\\' below data_len is found by memchr and replaced by '/'", None, pl.file)
            srs_done = True
        else:
            srs_done = False
        rep.check(rid, len(ok) == 1 or srs_done, "in-header names: every byte below data_len has '\\\\' replaced (by '/')", pl.file,
                  "%s" % [(_ranges(b.final_values), b.exit) for b in loops], function=pl.cname, obj="backslash")
        for bl in ok:
            rep.check(rid, any(p["stores"] == SLASH and p["admits"] == "0x5c" for p in bl.path_detail), "the replacement byte is '/'", pl.file, None, function=pl.cname, obj="repl")
            rep.sample({"loop": pl.cname, "paths": bl.path_detail})
    pd = rep.need(rid, mod.fn("ext_header_path_decoder"), "function ext_header_path_decoder")
    if pd:
        F = ctx.facts(pd)
        M = Matcher(pd)
        loops = find_byte_loops(pd, F)
        ok = [bl for bl in loops if bl.start_ok and bl.step_ok and bl.exit == "counted" and bl.unvisited_ok and 0xFF not in bl.final_values]
        srs = [sr for sr in find_search_replace(pd, F) if sr.kind == "memchr" and sr.byte == 0xFF and sr.repl == SLASH and sr.length is not None]
        srs_done = False
        if not ok and len(srs) == 1:
            vals = set()
            for s_, fs_ in F.sources(srs[0].length):
                if M.strip(s_) == ("v", pd.params[2].id):
                    vals.add("len")
                elif M.match(("bin", "add", ("param", 2), 1), s_, {}) is not None:
                    vals.add("len+1")
                else:
                    vals.add(describe(pd, s_))
            srs_done = vals <= {"len", "len+1"} and "len" in vals or vals == {"len+1"}
            if srs_done:
                rep.ok(rid, "path header: every 0xFF below the (possibly extended) length is found by memchr and replaced by '/' (%s)" % sorted(vals), None, pd.file)
        rep.check(rid, len(ok) == 1 or srs_done, "path header: every byte below the (possibly extended) length has 0xFF replaced (by '/')", pd.file,
                  "%s" % [(_ranges(b.final_values), b.exit) for b in loops], function=pd.cname, obj="ff")
        for bl in ok:
            rep.check(rid, any(p["stores"] == SLASH and p["admits"] == "0xff" for p in bl.path_detail), "the replacement byte is '/'", pd.file, None, function=pd.cname, obj="repl")
            # bound: data_len, or data_len + 1 when the trailing separator was appended
            vals = set()
            for s, fs in F.sources(bl.bound):
                if M.strip(s) == ("v", pd.params[2].id):
                    vals.add("len")
                elif M.match(("bin", "add", ("param", 2), 1), s, {}) is not None:
                    vals.add("len+1")
                else:
                    vals.add(describe(pd, s))
            rep.check(rid, vals == {"len", "len+1"}, "loop bound is data_len, or data_len + 1 after appending the separator", pd.file, "%s" % sorted(vals), function=pd.cname, obj="bound")
        # trailing separator ensured: if last byte != 0xff then buf[len] = 0xff, buf[len+1] = 0
        st = [s for s in pd.insts() if s.op == "store" and s.size == 1 and is_const(s.ops[0]) and (const_val(s.ops[0]) & 0xFF) == 0xFF]
        okt = len(st) == 1 and M.match(("gep", ANY, [("param", 2)]), st[0].ops[1], {}) is not None
        if okt:
            f, _ = M.find_fact(("ne", ("load", ("gep", ANY, [("bin", "sub", ("param", 2), 1)])), 0xFF), F.at_inst(st[0]))
            okt = f is not None
        rep.check(rid, okt, "a separator is appended when the last byte is not 0xFF", pd.file, None, function=pd.cname, obj="trailing")

    # ---- R3 sanitiser last ------------------------------------------------------------------------------------------------
    rid = rep.rule(prefix + "R3", "every header returned with a non-NULL path went through collapse_path(header->path)", 1)
    rd = rep.need(rid, mod.fn("lha_file_header_read"), "function lha_file_header_read")
    if rd:
        F = ctx.facts(rd)
        M = Matcher(rd)
        pathv = ("load", ("field", HDR, "path", ANY))
        cps = [c for c in rd.calls("collapse_path") if M.match(pathv, c.ops[0], {}) is not None]
        rep.check(rid, len(cps) == 1, "collapse_path(header->path) is called once", rd.file, "%d call sites" % len(cps), function=rd.cname, obj="call")
        if cps:
            cp = cps[0]
            # cut: the edge 'path == NULL' taken at the guard of that call, and the call block itself
            guard_edges = set()
            for e in F.edges_with_fact(("eq", pathv, 0)):
                # only the guard of the collapse call: its other branch leads to the call block
                if cp.block.id in rd.blocks[e[0]].succs:
                    guard_edges.add(e)
            cut = set(guard_edges) | {(cp.block.id, s) for s in cp.block.succs}
            for v, pb, b in success_edges(F, rd):
                tgt = pb if pb is not None else b
                rep.check(rid, not F.reaches_avoiding(0, tgt, cut), "successful return crosses collapse_path or 'path == NULL'", "%s:%s" % (rd.file, rd.blocks[tgt].term.line()),
                          "a header can be returned with a path that never went through collapse_path", function=rd.cname, obj="sanitiser-last")
            rep.check(rid, len(guard_edges) <= 1, "the only way around the call (if any) is 'path == NULL'", cp.where(), "%d guard edges" % len(guard_edges), function=rd.cname, obj="guard")
            # nothing after it writes the path field or path bytes
            rid2 = rep.rule(prefix + "R3b", "after collapse_path nothing that can write the path field or the bytes of a path runs", 3)
            after = blocks_reachable_from(rd, rd.blocks[cp.block.id].succs)
            writers = cg.field_writers(HDR, "path") | {fn_ for (fn_, f) in list(direct) + list(via) if f == "path"}
            later = [i for i in rd.blocks[cp.block.id].insts if i.idx > cp.idx]
            for b in sorted(after):
                later += rd.blocks[b].insts
            n = 0
            for ins in later:
                if ins.op == "call" and ins.callee and not ins.callee.startswith("llvm.dbg"):
                    n += 1
                    hit = cg.reachable([ins.callee]) & writers
                    # lha_file_header_free on the failure path is fine: it releases, does not return the header
                    if mod.callee_cname(ins) == "lha_file_header_free":
                        rep.ok(rid2, "call lha_file_header_free after the sanitiser (failure path)", None, ins.where())
                        continue
                    rep.check(rid2, not hit, "call %s after the sanitiser cannot write the path" % mod.callee_cname(ins), ins.where(),
                              "reaches path writers %s" % sorted(hit) if hit else None, function=rd.cname, obj=mod.callee_cname(ins))
                if any(ins is w for w in direct.get((rd.name, "path"), [])):
                    rep.violation(rid2, "bytes of header->path written after the sanitiser", ins.where(), "a store (or libc writer) through the path pointer runs after collapse_path: "
                                  "whatever it leaves in the path is returned unsanitised", function=rd.cname, obj="path-bytes")
                if ins.op == "store" and (ins in stores_to_field(mod, HDR, "path", [rd])):
                    rep.violation(rid2, "store to header->path after the sanitiser", ins.where(), "direct store", function=rd.cname, obj="path-store")
        # the header is returned by no other function of the library without passing here: lha_file_header_read is the only producer
        prod = {f.cname for f in mod.defined() for c in f.insts() if c.op == "call" and mod.callee_cname(c) in ("calloc", "malloc", "realloc") and
                "LHAFileHeader" in (f.ret or "") }
    rid = rep.rule(prefix + "R5", "collapse_path conforms to the component transducer: per-iteration moves copy / accept / drop / pop, accept guarded against '', '.' and '..', pop lands on a component boundary", 10)
    cp = rep.need(rid, mod.fn("collapse_path"), "function collapse_path")
    if cp:
        from ..scan import check_filter
        ok, problems, stats = check_filter(cp, ctx.facts(cp))
        rep.extra["collapse_path_moves"] = stats
        for w_, text in problems:
            rep.violation(rid, "collapse_path: %s" % text, w_, "the in-place filter can leave an empty, '.' or '..' component (or the analysis cannot show that it does not)",
                          function="collapse_path", obj="move")
        if ok:
            for k in ("copy", "accept", "drop", "pop", "exit"):
                for _ in range(stats.get(k, 0)):
                    rep.ok(rid, "collapse_path: %s path conforms" % k, None, "%s:%s" % (cp.file, cp.line))
    rid = rep.rule(prefix + "R4", "lha_file_header_read is the only function that creates headers", 1)
    creators = set()
    for f in mod.defined():
        for c in f.insts():
            if c.op == "call" and mod.callee_cname(c) in ("calloc", "malloc"):
                for u in f.users(c.id):
                    if u.op == "bitcast" and "LHAFileHeader" in u.ty:
                        creators.add(f.cname)
    rep.check(rid, creators == {"lha_file_header_read"}, "header objects are created only in lha_file_header_read", "lib/", "creators %s" % sorted(creators),
              function="LHAFileHeader", obj="creators")


def run(tier, seed):
    rep = Report("C11", tier, "other",
                 "Static provenance and byte-map analysis of the name/path pipeline: every value stored to the file-name field is "
                 "NULL, a buffer whose sanitising loop (evaluated over all 256 byte values) leaves no '/', the tail after the last "
                 "'/', or is handed to split_header_filename on every path; the separator-normalisation loops visit every byte; "
                 "every header returned with a path passed through collapse_path(header->path) and nothing that can write the path "
                 "or its bytes runs afterwards; collapse_path itself is checked against the component transducer: every path through one "
                 "iteration of its loop is a copy, accept, drop or pop move on (component start, write cursor), an accept only under "
                 "branch facts that exclude the empty, '.' and '..' component, a pop only to the start of the string or to a position just "
                 "after a '/', nothing else is stored into the string but the copied byte and the final NUL (E9 SCAN). Together these give "
                 "the invariant '[start, component start) is a sequence of real names each followed by /' for every input string.")
    with Context(tier) as ctx:
        from .. import selfcheck
        selfcheck.run(ctx, rep, ['taint', 'facts'])
        mod = ctx.plain()
        cg = CallGraph(mod)
        rep.analysed = {"view": "plain", "functions": len(mod.defined())}

        name_path_rules(rep, ctx, mod, cg)
    return rep.finish(seed)
