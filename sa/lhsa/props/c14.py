"""C14 - decoder reads: exact declared length, faithful CRC/length, progress bookkeeping.

Decides (E2 provenance rules on lha_decoder.c): the value returned by
lha_decoder_read, the increment of the stream position and the byte count
handed to the CRC routine are one and the same SSA value and count exactly
the bytes memcpy'd into the caller's buffer; the request is clamped to the
declared length; the output-buffer cursor advances by exactly the bytes
copied; progress blocks rise one by one.
Not decided: split-invariance as an equality over read histories.
"""
from ..context import Context
from ..report import Report
from ..facts import Facts, Matcher, ANY, is_const, const_val, describe, describe_fact
from ..rules import (blocks_reachable_from, require_on_success, guarded_site, success_edges, facts_for_success, stores_to_field,
                     min_width_through_casts, rets)

DEC, DT = "LHADecoder", "LHADecoderType"


def dfield(f):
    return ("load", ("field", DEC, f, ("param", 0)))


def ceil_div_of(fn, F, M, v, xpat, bspat):
    """v is ceil(x / bs) for x matching xpat and bs matching bspat, in either spelling:
         (x + bs - 1) / bs            or            x / bs  (+ 1 exactly when x % bs != 0)"""
    one = ("bin", "udiv", ("bin", "sub", ("bin", "add", ("bind", "x", xpat), ("bind", "bs", bspat)), 1), ("bind", "bs"))
    e1 = M.match(one, v, {})
    if e1 is not None:
        # ... computed at the width of x: `(unsigned int) (x + bs - 1) / bs` divides the low 32 bits of the sum (a cast that binds to the sum, not to
        # the quotient), which is a different number from 4 GiB on
        dv = fn.defn(M.strip(v))
        xd = fn.defn(M.strip(e1["x"], ("bitcast",)))
        xw = (fn.mod.int_bits(xd.ty) if xd is not None else None) or 64
        if dv is not None and not dv.is_param and dv.op == "udiv":
            w_, _ = min_width_through_casts(fn, dv.ops[0])
            if w_ is not None and w_ < xw:
                return False
        return True
    srcs = F.sources(v)
    if len(srcs) != 2:
        return False
    q = ("bin", "udiv", ("bind", "x", xpat), ("bind", "bs", bspat))
    rem_ne = ("ne", ("bin", "urem", ("bind", "x"), ("bind", "bs")), 0)
    seen = set()
    for s_, fs in srcs:
        e = M.match(q, s_, {})
        if e is not None:
            if M.find_fact(("eq", rem_ne[1], 0), fs, dict(e))[0] is None:
                return False
            seen.add("floor")
            continue
        e = M.match(("bin", "add", q, 1), s_, {})
        if e is not None:
            if M.find_fact(rem_ne, fs, dict(e))[0] is None:
                return False
            seen.add("floor+1")
            continue
        return False
    return seen == {"floor", "floor+1"}


def identity_rules(rep, ctx, mod, prefix=""):
    rid = rep.rule(prefix + "R1", "lha_decoder_read: returned count == stream_pos increment == CRC'd count, CRC over the caller's buffer from offset 0", 5)
    fn = rep.need(rid, mod.fn("lha_decoder_read"), "function lha_decoder_read")
    if not fn:
        return None
    F = ctx.facts(fn)
    M = Matcher(fn)
    rr = rets(fn)
    if len(rr) != 1 or not rr[0].ops:
        rep.broken(rid, "lha_decoder_read: expected a single value return")
        return None
    X = M.strip(rr[0].ops[0], ())
    where = "%s:%s" % (fn.file, rr[0].line())
    # an early `return 0` (nothing requested, nothing left) merges into the return as a constant incoming: such an incoming is fine when
    # no byte can have reached the caller's buffer on the way (no copy, no decoder run lies before it); the count proper is the other one
    ret_pred = rr[0].block.id
    ways = None
    dX = fn.defn(X)
    if dX is not None and not dX.is_param and dX.op == "phi" and dX.block.id == rr[0].block.id:
        writers = {c.block.id for c in fn.insts() if c.op == "call" and ((c.callee or "").startswith("llvm.memcpy") or
                   (not c.callee and M.match(("load", ("field", "LHADecoderType", "read", ANY)), c.calleev, {}) is not None))}
        after_w = blocks_reachable_from(fn, list(writers)) | writers
        proper = []
        counts = [M.strip(v_, ()) for v_, _ in dX.incoming if not is_const(v_)]
        for v_, pb_ in dX.incoming:
            if is_const(v_) and const_val(v_) == 0 and pb_ not in after_w:
                rep.ok(rid, "early return 0 from bb%d: nothing was written to the caller's buffer before it" % pb_, None, where)
            elif is_const(v_) and const_val(v_) == 0 and any(M.find_fact(("eq", ("inst", c_[1]), 0), F.on_edge(pb_, dX.block.id))[0] is not None for c_ in counts if c_[0] == "v"):
                # `if (filled == 0) return 0;` in front of the updates: the count IS zero there, CRC, position and progress of zero bytes are no change
                rep.ok(rid, "return 0 from bb%d under count == 0: the skipped updates are those of zero bytes" % pb_, None, where)
            else:
                proper.append((v_, pb_))
        if len(proper) == 1:
            X = M.strip(proper[0][0], ())
            ret_pred = proper[0][1]
        elif len(proper) >= 2:
            ways = [(M.strip(v_, ()), pb_) for v_, pb_ in proper]
    # several ways to the return, each with its own count (a fast path next to the general loop): every rule below is then asked per way,
    # of the updates that can reach that way's end
    if ways is None:
        ways = [(X, ret_pred)]
    per_way = len(ways) > 1

    def reaches(bid, pb):
        return bid == pb or pb in blocks_reachable_from(fn, [bid])
    all_crcs = list(fn.calls("lha_crc16_buf"))
    all_sts = stores_to_field(mod, DEC, "stream_pos", [fn])
    if not per_way:
        rep.check(rid, len(all_crcs) == 1, "exactly one CRC update per read", where, "%d calls" % len(all_crcs), function=fn.cname, obj="crc-calls")
        rep.check(rid, len(all_sts) == 1, "exactly one stream_pos update per read", where, "%d stores" % len(all_sts), function=fn.cname, obj="pos-stores")
    for X, ret_pred in ways:
        crcs = [c for c in all_crcs if reaches(c.block.id, ret_pred)] if per_way else all_crcs
        sts = [s_ for s_ in all_sts if reaches(s_.block.id, ret_pred)] if per_way else all_sts
        if per_way:
            rep.check(rid, len(crcs) == 1, "exactly one CRC update on the way to the return from bb%d" % ret_pred, where, "%d calls" % len(crcs), function=fn.cname, obj="crc-calls")
            rep.check(rid, len(sts) == 1, "exactly one stream_pos update on the way to the return from bb%d" % ret_pred, where, "%d stores" % len(sts), function=fn.cname, obj="pos-stores")
        for c in crcs:
            rep.check(rid, M.match(("field", DEC, "crc", ("param", 0)), c.ops[0], {}) is not None, "CRC accumulator is &decoder->crc", c.where(), None,
                      function=fn.cname, obj="crc-acc")
            rep.check(rid, M.strip(c.ops[1], ("bitcast",)) == ("v", fn.params[1].id), "CRC is computed over the caller's buffer from offset 0", c.where(),
                      describe(fn, c.ops[1]), function=fn.cname, obj="crc-buf")
            rep.check(rid, c.ops[2] == X, "CRC'd byte count is the returned count", c.where(),
                      "crc len = %s, returned = %s" % (describe(fn, c.ops[2]), describe(fn, X)), function=fn.cname, obj="crc-len")
            # the CRC update lies on every path to the return
            rep.check(rid, fn.dominates(c.block.id, ret_pred), "the CRC update dominates the return of the count", c.where(), None, function=fn.cname, obj="crc-dom")
        for s in sts:
            e = M.match(("bin", "add", dfield("stream_pos"), ("bind", "n")), s.ops[0], {})
            rep.check(rid, e is not None and e["n"] == X, "stream_pos += returned count", s.where(), describe(fn, s.ops[0]), function=fn.cname, obj="pos-inc")
            rep.check(rid, fn.dominates(s.block.id, ret_pred), "the position update dominates the return of the count", s.where(), None, function=fn.cname, obj="pos-dom")

    # the returned count counts exactly the bytes copied into buf
    rid2 = rep.rule(prefix + "R1b", "the returned count is 0 plus the lengths of the memcpy's into buf + count", 2)
    copies = [c for c in fn.insts() if c.op == "call" and (c.callee or "").startswith("llvm.memcpy")]
    all_copies = copies
    runs_ = [c for c in fn.insts() if c.op == "call" and not c.callee and M.match(("load", ("field", "LHADecoderType", "read", ANY)), c.calleev, {}) is not None]
    for X, ret_pred in ways:
        copies = [c for c in all_copies if reaches(c.block.id, ret_pred)] if per_way else all_copies
        rep.check(rid2, len(copies) == 1, "one copy into the caller's buffer per step" + (" (way to the return from bb%d)" % ret_pred if per_way else ""), where, "%d memcpy calls" % len(copies), function=fn.cname, obj="copies")
        if per_way and len(copies) == 1 and not any(reaches(r_.block.id, ret_pred) for r_ in runs_) and not any(copies[0].block.id in lp_["body"] for lp_ in fn.loops()):
            # a way that serves the request with one straight copy: n bytes to buf + 0, n returned
            c_ = copies[0]
            okd = M.strip(c_.ops[0], ("bitcast",)) == ("v", fn.params[1].id) and M.strip(c_.ops[2]) == M.strip(X) and fn.dominates(c_.block.id, ret_pred)
            rep.check(rid2, okd, "direct way: the returned count is the length of the one copy to buf + 0", c_.where(), describe(fn, X), function=fn.cname, obj="direct-copy")
            continue
        okleaf = True
        for s, fs in F.sources(X, through_casts=False):
            if is_const(s):
                if const_val(s) != 0:
                    okleaf = False
                    rep.violation(rid2, "count starts at 0", where, "constant %s" % const_val(s), function=fn.cname, obj="count-init")
                else:
                    rep.ok(rid2, "count starts at 0", None, where)
                continue
            def step_ok(v, depth=0):
                """v = f + n where n bytes were written at buf + f: by the memcpy, or by a run of the decoder writing straight into the
                caller's buffer (its result, with at least max_read bytes of room left there), f being the loop-carried count or itself
                such a step"""
                e = M.match(("bin", "add", ("bind", "f"), ("bind", "n")), v, {})
                if e is None or depth > 4 or e["f"][0] != "v":
                    return False
                fd = fn.defn(e["f"])
                if fd is None or fd.is_param or not (fd.op == "phi" or step_ok(e["f"], depth + 1)):
                    return False
                dv = fn.defn(v)
                for c in copies:
                    if M.match(("gep", ("param", 1), [("inst", e["f"][1])]), c.ops[0], {}) is not None and M.strip(c.ops[2]) == e["n"] \
                            and fn.dominates(c.block.id, dv.block.id):
                        return True
                r = fn.defn(M.strip(e["n"]))
                if r is not None and not r.is_param and r.op == "call" and not r.callee and len(r.ops) >= 2 and fn.dominates(r.block.id, dv.block.id) \
                        and M.match(("gep", ("param", 1), [("inst", e["f"][1])]), r.ops[1], {}) is not None \
                        and M.match(("load", ("field", "LHADecoderType", "read", ANY)), r.calleev, {}) is not None:
                    # the room is measured against the loop's own limit (the clamped request: `count < limit` is the loop condition)
                    limits = [M.strip(f_[2]) for f_ in F.at_inst(r) if f_[0] == "ult" and f_[2][0] == "v" and fn.defn(M.strip(f_[1])) is not None
                              and getattr(fn.defn(M.strip(f_[1])), "op", "") == "phi"]
                    mr = ("load", ("field", "LHADecoderType", "max_read", ANY))
                    for L in limits:
                        room = ("bin", "sub", ("inst", L[1]), ("inst", e["f"][1]))
                        for f_ in F.at_inst(r):
                            if (f_[0] == "uge" and M.match(room, f_[1], {}) is not None and M.match(mr, f_[2], {}) is not None) or \
                                    (f_[0] == "ule" and M.match(mr, f_[1], {}) is not None and M.match(room, f_[2], {}) is not None):
                                return True
                return False
            rep.check(rid2, step_ok(s), "count update = count + bytes where memcpy(buf + count, ..., bytes) (or a decoder run into buf + count with max_read bytes of room)",
                      fn.defn(s).where() if fn.defn(s) is not None and not fn.defn(s).is_param else where, describe(fn, s), function=fn.cname, obj="count-step")
    # a run of the decoder that delivers nothing ends the stream for good: the sticky failure flag is set on every path from there
    rid3 = rep.rule(prefix + "R1c", "every run of the decoder (dtype->read) whose result is 0 is followed by decoder_failed = 1 on every path to the return", 1)
    runs = [c for c in fn.insts() if c.op == "call" and not c.callee and M.match(("load", ("field", "LHADecoderType", "read", ANY)), c.calleev, {}) is not None]
    rep.check(rid3, len(runs) >= 1, "decoder runs found", where, "%d" % len(runs), function=fn.cname, obj="runs")
    setf = [st for st in stores_to_field(mod, DEC, "decoder_failed", [fn]) if is_const(st.ops[0]) and const_val(st.ops[0]) not in (0, None)]
    cutf = set()
    for st in setf:
        cutf |= {(st.block.id, x) for x in st.block.succs} | ({(st.block.id, "ret")} if not st.block.succs else set())
    for r in runs:
        zero = set(F.edges_with_fact(("eq", ("inst", r.id), 0)))
        if any(M.strip(st_.ops[0]) == ("v", r.id) for st_ in stores_to_field(mod, DEC, "outbuf_len", [fn])):
            # the result is kept in outbuf_len and tested there (possibly after the paths with and without a refill have merged)
            after_r = blocks_reachable_from(fn, [r.block.id]) | {r.block.id}
            zero |= {e_ for e_ in F.edges_with_fact(("eq", dfield("outbuf_len"), 0)) if e_[0] in after_r}
        bad = [e_ for e_ in zero if not any(st.block.id == e_[1] for st in setf) and
               any((rt.block.id, "ret") not in cutf and (rt.block.id == e_[1] or F.reaches_avoiding(e_[1], rt.block.id, cutf)) for rt in rr)]
        rep.check(rid3, bool(zero) and not bad, "run at %s: a zero result leads to decoder_failed = 1" % r.where().split(" ")[0], r.where(),
                  "the result is never compared with 0" if not zero else ("the return is reachable from the zero-result edge bb%s->bb%s without setting the flag: a later read would run the decoder again" % bad[0] if bad else None),
                  function=fn.cname, obj="sticky-%d" % r.id)
    # other stores through buf? none: buf is written only by that memcpy
    for i in fn.insts():
        if i.op == "store":
            from ..mem import root
            if root(fn, i.ops[1])[:2] == ("param", 1):
                rep.violation(rid2, "no other write into the caller's buffer", i.where(), "store", function=fn.cname, obj="buf-store")
    return fn, X, all_copies


def run(tier, seed):
    rep = Report("C14", tier, "other",
                 "Static provenance analysis of lib/lha_decoder.c: the count returned by lha_decoder_read, the increment of the "
                 "stream position and the length handed to the CRC routine are the same SSA value, which counts exactly the bytes "
                 "memcpy'd to the caller's buffer; the request is clamped to 'declared length - position'; each copy is bounded by "
                 "min(buffered, remaining request); the buffer cursor advances by the bytes copied and is reset only when the "
                 "buffer is refilled from the decoder; progress blocks rise by exactly one per callback up to the announced total; at every "
                 "input-callback site a byte of a local buffer is consumed only under a fact implying that the callback delivered it (short-read discipline). "
                 "The progress check follows every position update (R4b); the two getters return the fields the read path maintains (R1d); in every decoder the result of a bit reader is used as data only behind "
                 "a fact excluding its failure value (R6, 208 uses). Not decided: split-invariance as an equality over read histories (follows from these rules only informally).")
    with Context(tier) as ctx:
        from .. import selfcheck
        selfcheck.run(ctx, rep, ['facts'])
        mod = ctx.plain()
        rep.analysed = {"view": "plain", "functions": len(mod.defined()), "units": len(ctx.views.units)}
        r = identity_rules(rep, ctx, mod)
        if r:
            fn, X, copies = r
            F = ctx.facts(fn)
            M = Matcher(fn)
            # ---- R2 clamp -------------------------------------------------------------------
            rid = rep.rule("R2", "the request is clamped: limit = buf_len, or stream_length - stream_pos when stream_pos + buf_len > stream_length; the loop runs while count < limit", 2)
            # find the limit: the loop condition 'count ult limit'
            lim = None
            for lp in fn.loops():
                for (b, s) in lp["exits"]:
                    for f in F.edge_facts(b, s):
                        if f[0] == "uge" and fn.defn(f[1]) is not None and getattr(fn.defn(f[1]), "op", "") == "phi":
                            lim = f[2]
            if lim is None:
                rep.violation(rid, "loop exit 'count >= limit'", fn.file, "not found", function=fn.cname, obj="loop-exit")
            else:
                over = ("ugt", ("bin", "add", dfield("stream_pos"), ("param", 2)), dfield("stream_length"))
                for s, fs in F.sources(lim, through_casts=False):
                    if M.match(("param", 2), s, {}) is not None and M.strip(s, ()) == ("v", fn.params[2].id):
                        f, _ = M.find_fact(("ule", over[1], over[2]), fs)
                        if f is None:       # the same without the addition that can wrap: buf_len <= stream_length - stream_pos
                            f, _ = M.find_fact(("ule", ("param", 2), ("bin", "sub", dfield("stream_length"), dfield("stream_pos"))), fs)
                        rep.check(rid, f is not None, "limit = buf_len only if stream_pos + buf_len <= stream_length", fn.file, None, function=fn.cname, obj="limit-buflen")
                    elif M.match(("bin", "sub", dfield("stream_length"), dfield("stream_pos")), s, {}) is not None:
                        rep.ok(rid, "limit = stream_length - stream_pos otherwise", None, fn.file)
                    else:
                        rep.violation(rid, "limit source", fn.file, describe(fn, s), function=fn.cname, obj="limit-source")
                # stream_pos <= stream_length is preserved: position only grows by count <= limit <= length - pos (see R2b)
            rid = rep.rule("R2b", "each copy is bounded by the remaining request: bytes = min(outbuf_len - outbuf_pos, limit - count)", 2)
            for c in copies:
                n = c.ops[2]
                if len(copies) > 1 and M.strip(c.ops[0], ("bitcast",)) == ("v", fn.params[1].id) and not any(c.block.id in lp_["body"] for lp_ in fn.loops()):
                    # a straight copy to buf + 0 outside the loop (fast path): it serves the whole clamped request, and only when that much is buffered
                    avail = ("bin", "sub", dfield("outbuf_len"), dfield("outbuf_pos"))
                    nn = M.strip(n)
                    f_ = None
                    if nn[0] == "v":
                        f_, _ = M.find_fact(("ule", ("inst", nn[1]), avail), F.at_inst(c))
                        if f_ is None:
                            f_, _ = M.find_fact(("uge", avail, ("inst", nn[1])), F.at_inst(c))
                    rep.check(rid, f_ is not None and lim is not None and nn == M.strip(lim), "direct copy: the whole clamped request, under request <= outbuf_len - outbuf_pos", c.where(),
                              describe(fn, n), function=fn.cname, obj="direct-min")
                    rep.check(rid, M.match(("gep", dfield("outbuf"), [dfield("outbuf_pos")]), c.ops[1], {}) is not None,
                              "copy source is outbuf + outbuf_pos", c.where(), describe(fn, c.ops[1]), function=fn.cname, obj="src")
                    continue
                for s, fs in F.sources(n, through_casts=False):
                    e = M.match(("bin", "sub", ("inst", lim[1]) if lim and lim[0] == "v" else ANY, ("phi",)), s, {})
                    if e is not None:
                        rep.ok(rid, "bytes = limit - count", None, c.where())
                    else:
                        f, _ = M.find_fact(("uge", ("bin", "sub", ANY, ("phi",)), ("inst", M.strip(s)[1])), fs) if M.strip(s)[0] == "v" else (None, None)
                        e2 = M.match(("bin", "sub", dfield("outbuf_len"), dfield("outbuf_pos")), s, {})
                        rep.check(rid, f is not None and e2 is not None, "bytes = outbuf_len - outbuf_pos only if that is <= limit - count", c.where(),
                                  describe(fn, s), function=fn.cname, obj="min")
                # source of the copy is outbuf + outbuf_pos
                rep.check(rid, M.match(("gep", dfield("outbuf"), [dfield("outbuf_pos")]), c.ops[1], {}) is not None,
                          "copy source is outbuf + outbuf_pos", c.where(), describe(fn, c.ops[1]), function=fn.cname, obj="src")
            # ---- R3 cursor ---------------------------------------------------------------------
            rid = rep.rule("R3", "outbuf_pos advances by exactly the bytes copied and is reset to 0 only when outbuf_len is refreshed from dtype->read", 3)
            pos_stores = stores_to_field(mod, DEC, "outbuf_pos", [fn])
            len_stores = stores_to_field(mod, DEC, "outbuf_len", [fn])
            adv = 0
            for s in pos_stores:
                if is_const(s.ops[0]):
                    okz = const_val(s.ops[0]) == 0 and any(ls.block.id == s.block.id for ls in len_stores)
                    rep.check(rid, okz, "outbuf_pos = 0 together with the refill", s.where(), None, function=fn.cname, obj="reset")
                else:
                    e = M.match(("bin", "add", dfield("outbuf_pos"), ("bind", "n")), s.ops[0], {})
                    okadv = e is not None and any(M.strip(c.ops[2]) == e["n"] and c.block.id == s.block.id for c in copies)
                    adv += 1 if okadv else 0
                    rep.check(rid, okadv, "outbuf_pos += bytes copied", s.where(), describe(fn, s.ops[0]), function=fn.cname, obj="advance")
            rep.check(rid, adv == len(copies), "one cursor advance per copy", fn.file, None, function=fn.cname, obj="advance-count")
            for ls in len_stores:
                d = fn.defn(M.strip(ls.ops[0]))
                okr = d is not None and not d.is_param and d.op == "call" and d.callee is None and \
                    M.match(("load", ("field", DT, "read", dfield("dtype"))), d.calleev, {}) is not None
                rep.check(rid, okr, "outbuf_len = dtype->read(decoder + 1, outbuf)", ls.where(), None, function=fn.cname, obj="refill")
                if okr:
                    rep.check(rid, M.match(("gep", ("param", 0), [1]), d.ops[0], {}) is not None and M.match(dfield("outbuf"), d.ops[1], {}) is not None,
                              "refill arguments are (decoder + 1, decoder->outbuf)", d.where(), None, function=fn.cname, obj="refill-args")
                    guarded_site(rep, rid, ctx, d, [("outbuf consumed: outbuf_pos >= outbuf_len", ("uge", ANY, dfield("outbuf_len"))),
                                                    ("decoder has not failed", ("eq", dfield("decoder_failed"), 0))])
            # sticky failure flag
            for s in stores_to_field(mod, DEC, "decoder_failed"):
                v = const_val(s.ops[0]) if is_const(s.ops[0]) else None
                rep.check(rid, v == 1 or (v == 0 and s.fn.cname == "lha_decoder_new"), "decoder_failed is sticky (only 1 is stored after construction)", s.where(),
                          None, function=s.fn.cname, obj="failed")

        # ---- R1d what the accessors report ------------------------------------------------------------------
        rid = rep.rule("R1d", "lha_decoder_get_length returns stream_pos (the bytes handed out so far) and lha_decoder_get_crc the running crc, both unmodified and at full width", 2)
        for gname, fld_, w_ in (("lha_decoder_get_crc", "crc", 16), ("lha_decoder_get_length", "stream_pos", 64)):
            g_ = rep.need(rid, mod.fn(gname), "function " + gname)
            if g_:
                Mg = Matcher(g_)
                rr_ = rets(g_)
                ok_ = len(rr_) == 1 and Mg.match(("load", ("field", DEC, fld_, ("param", 0))), rr_[0].ops[0], {}) is not None and min_width_through_casts(g_, rr_[0].ops[0])[0] == w_
                rep.check(rid, ok_, "%s returns decoder->%s" % (gname, fld_), "%s:%s" % (g_.file, g_.line),
                          None if ok_ else "the value reported to the caller is not the counter that lha_decoder_read maintains", function=gname, obj=fld_)

        # ---- R4 progress -----------------------------------------------------------------------------
        rid = rep.rule("R4", "progress: last_block rises by exactly 1 before each callback(last_block, total_blocks, data); total = ceil(length / block_size)", 4)
        cp = rep.need(rid, mod.fn("check_progress_callback"), "function check_progress_callback")
        if cp:
            M = Matcher(cp)
            calls = [c for c in cp.insts() if c.op == "call" and c.callee is None]
            rep.check(rid, len(calls) == 1, "one callback site", cp.file, None, function=cp.cname, obj="sites")
            for c in calls:
                e = M.match(("bin", "add", ("bind", "old", dfield("last_block")), 1), c.ops[0], {})
                sts = stores_to_field(mod, DEC, "last_block", [cp])
                rep.check(rid, e is not None and len(sts) == 1 and M.strip(sts[0].ops[0]) == M.strip(c.ops[0]) and sts[0].block.id == c.block.id,
                          "callback receives last_block after an increment by exactly 1", c.where(), None, function=cp.cname, obj="inc")
                rep.check(rid, M.match(dfield("total_blocks"), c.ops[1], {}) is not None and M.match(dfield("progress_callback_data"), c.ops[2], {}) is not None,
                          "callback receives (.., total_blocks, progress_callback_data)", c.where(), None, function=cp.cname, obj="args")
                rep.check(rid, M.match(("load", ("field", DEC, "progress_callback", ("param", 0))), c.calleev, {}) is not None,
                          "callee is decoder->progress_callback", c.where(), None, function=cp.cname, obj="callee")
                # loop continues while last_block != block, block = (stream_pos + bs - 1) / bs
                F = ctx.facts(cp)
                blockv = ("bin", "udiv", ("bin", "sub", ("bin", "add", dfield("stream_pos"), ("bind", "bs", ("load", ("field", DT, "block_size", dfield("dtype"))))), 1), ("bind", "bs"))
                f, _ = M.find_fact(("ne", dfield("last_block"), blockv), F.at_inst(c))
                if f is None:
                    bsp = ("load", ("field", DT, "block_size", dfield("dtype")))
                    for fc in F.at_inst(c):
                        if fc[0] == "ne" and M.match(dfield("last_block"), fc[1], {}) is not None and not is_const(fc[2]) and ceil_div_of(cp, F, M, fc[2], dfield("stream_pos"), bsp):
                            f = fc
                rep.check(rid, f is not None, "callbacks continue while last_block != ceil(stream_pos / block_size)", c.where(), None, function=cp.cname, obj="loop")
        mo = rep.need(rid, mod.fn("lha_decoder_monitor"), "function lha_decoder_monitor")
        if mo:
            M = Matcher(mo)
            sts = stores_to_field(mod, DEC, "total_blocks", [mo])
            tot = ("bin", "udiv", ("bin", "sub", ("bin", "add", dfield("stream_length"), ("bind", "bs", ("load", ("field", DT, "block_size", dfield("dtype"))))), 1), ("bind", "bs"))
            okt = len(sts) == 1 and ceil_div_of(mo, ctx.facts(mo), M, sts[0].ops[0], dfield("stream_length"), ("load", ("field", DT, "block_size", dfield("dtype"))))
            rep.check(rid, okt, "total_blocks = ceil(stream_length / block_size)", mo.file, None, function=mo.cname, obj="total")
            rep.check(rid, len(list(mo.calls("check_progress_callback"))) == 1, "attaching a monitor reports block 0 at once", mo.file, None, function=mo.cname, obj="initial")
        # last_block starts at UINT_MAX so that the first increment announces block 0
        nw = rep.need(rid, mod.fn("lha_decoder_new"), "function lha_decoder_new")
        if nw:
            sts = stores_to_field(mod, DEC, "last_block", [nw])
            rep.check(rid, len(sts) == 1 and is_const(sts[0].ops[0]) and (const_val(sts[0].ops[0]) & 0xFFFFFFFF) == 0xFFFFFFFF,
                      "last_block starts at UINT_MAX", nw.file, None, function=nw.cname, obj="init")

        # ---- R4b progress follows the position -------------------------------------------------------------
        rid = rep.rule("R4b", "in lha_decoder_read the progress check runs after the position update: every path from the store to stream_pos to a return crosses "
                              "check_progress_callback (so the blocks reported are those of the bytes already delivered, whatever the read schedule)", 1)
        dr = mod.fn("lha_decoder_read")
        if dr is not None:
            Fd = ctx.facts(dr)
            sts = stores_to_field(mod, DEC, "stream_pos", [dr])
            pcs = list(dr.calls("check_progress_callback"))
            cut = set()
            for c in pcs:
                cut |= {(c.block.id, x) for x in c.block.succs} | ({(c.block.id, "ret")} if not c.block.succs else set())
            # no monitor attached: nothing to report (the edge that establishes progress_callback == NULL after the store counts as crossing)
            Md = Matcher(dr)
            for b_ in dr.blocks:
                for s_ in b_.succs:
                    if Md.find_fact(("eq", ("load", ("field", DEC, "progress_callback", ANY)), 0), Fd.edge_facts(b_.id, s_))[0] is not None:
                        cut.add((b_.id, s_))
            for st in sts:
                after_in_block = any(c.block.id == st.block.id and c.idx > st.idx for c in pcs)
                bad = None
                if not after_in_block:
                    for rt in rets(dr):
                        if rt.block.id == st.block.id or Fd.reaches_avoiding(st.block.id, rt.block.id, {e for e in cut if not (e[0] == st.block.id and
                                                                              any(c.block.id == st.block.id and c.idx < st.idx for c in pcs))}, start_after=st):
                            bad = rt
                            break
                rep.check(rid, bad is None and bool(pcs), "the progress check follows the update of stream_pos on every path to the return", st.where(),
                          None if bad is None and pcs else "the function can return after advancing stream_pos without having run the progress check on the new position: the "
                          "monitor lags one read behind and never reaches the total unless a further read is made", function=dr.cname, obj="progress-after-pos")
            rep.check(rid, len(sts) >= 1, "position store found", dr.file, None, function=dr.cname, obj="pos-store")

        # ---- R5 short-read discipline -----------------------------------------------------------------
        # The decoded bytes are a function of the input stream only if no decoder consumes a byte that the input callback did not
        # deliver: after `n = callback(buf, want, data)` into a local buffer, buf[k] may be read only under a fact that implies n > k.
        rid = rep.rule("R5", "input-callback buffers: a byte at offset k of a local buffer filled by the input callback is read only under a fact implying "
                             "that the callback delivered more than k bytes", 14)
        from ..ir import field_of_gep
        from ..mem import root
        nsites = 0
        for fn in mod.defined():
            M = None
            for c in fn.insts():
                if c.op != "call" or c.callee is not None or c.calleev is None:
                    continue
                a = fn.defn(c.calleev)
                if a is None or a.is_param or a.op != "load":
                    continue
                g = fn.defn(a.ops[0])
                fo = field_of_gep(mod, g) if g is not None and not g.is_param and g.op == "getelementptr" else None
                if not fo or fo[1] != "callback" or len(c.ops) < 3:
                    continue
                M = M or Matcher(fn)
                F = ctx.facts(fn)
                rt = root(fn, c.ops[0])
                if rt[0] != "alloca":
                    # the caller's buffer is handed on: the count must be what this function reports (null decoder: `return callback(buf, n, data)`)
                    nsites += 1
                    # every reported count is the delivered count, 0, or the requested count after the whole buffer was filled by memset
                    filled = [m for m in fn.insts() if m.op == "call" and (m.callee or "").startswith("llvm.memset") and M.strip(m.ops[0], ("bitcast",)) == M.strip(c.ops[0], ("bitcast",))
                              and M.strip(m.ops[2]) == M.strip(c.ops[1])]
                    ok = bool(rets(fn)) and bool(rets(fn)[0].ops)
                    for r_ in rets(fn):
                        for sv, _ in F.sources(r_.ops[0]):
                            if M.strip(sv) == ("v", c.id) or (is_const(sv) and const_val(sv) == 0):
                                continue
                            if M.strip(sv) == M.strip(c.ops[1]) and filled:
                                continue
                            ok = False
                    rep.check(rid, ok, "%s: callback fills the caller's buffer and the function returns the delivered count" % fn.cname, c.where(), None, function=fn.cname, obj="passthrough")
                    continue
                nsites += 1
                reach = blocks_after(fn, c)
                for ld in fn.insts():
                    if ld.op != "load" or ld.id == c.id:
                        continue
                    r2 = root(fn, ld.ops[0])
                    if r2[0] != "alloca" or r2[1] != rt[1]:
                        continue
                    if not (ld.block.id in reach or (ld.block.id == c.block.id and ld.idx > c.idx)):
                        continue
                    fs = F.at_inst(ld)
                    k = r2[2]
                    ok, why = False, None
                    if k is not None:
                        k -= (rt[2] or 0)
                        for f in fs:
                            if M.strip(f[1]) != ("v", c.id) or not is_const(f[2]):
                                continue
                            cv = const_val(f[2])
                            if (f[0] == "ne" and cv == 0 and k == 0) or (f[0] == "ugt" and cv >= k) or (f[0] == "uge" and cv >= k + 1) or (f[0] == "eq" and cv >= k + 1):
                                ok, why = True, describe_fact(fn, f)
                        # the request itself: delivered == requested is also a sufficient fact
                        if not ok:
                            f, _ = M.find_fact(("eq", ("inst", c.id), M.strip(c.ops[1]) if False else ANY), fs)
                            if f is not None and M.strip(f[2]) == M.strip(c.ops[1]) and is_const(M.strip(c.ops[1])) and const_val(M.strip(c.ops[1])) >= k + 1:
                                ok, why = True, describe_fact(fn, f)
                    else:
                        # variable index i: needs i < delivered
                        gd = fn.defn(M.strip(ld.ops[0], ("bitcast",)))
                        idx = [x["idx"] for x in gd.steps if "idx" in x][-1] if gd is not None and not gd.is_param and gd.op == "getelementptr" else None
                        if idx is not None:
                            for f in fs:
                                if f[0] == "ult" and M.strip(f[1]) == M.strip(idx) and M.strip(f[2]) == ("v", c.id):
                                    ok, why = True, describe_fact(fn, f)
                    rep.check(rid, ok, "%s: byte %s of the local buffer is read only if the callback delivered it" % (fn.cname, k if k is not None else "[i]"), ld.where(),
                              why if ok else "the callback may deliver fewer bytes than requested (%s); facts here: %s" % (
                                  describe(fn, c.ops[1]), sorted(describe_fact(fn, x) for x in fs if M.strip(x[1]) == ("v", c.id))),
                              function=fn.cname, obj="short-read@%s" % (k if k is not None else "i"))
        rep.extra["input_callback_sites"] = nsites

        # ---- R6 failed bit reads are not data ---------------------------------------------------------------------------------------
        # The bit-level readers report the end of the input by a negative result.  Decoding from such a result (as a length, an offset, a
        # table index, a literal) produces bytes the stream never contained - and which bytes depends on where the input happened to end,
        # i.e. on the read schedule.  Every use of a result other than testing it, merging it or handing it on as one's own result must
        # lie behind a fact that excludes the failure value.
        from ..loops import READ_LIKE, refutes_exhausted
        rid = rep.rule("R6", "results of read_bits / read_bit / read_from_tree / read_code / read_length_value / read_offset_code / peek_bits are used as data only behind a fact "
                             "that excludes their failure value", 40)
        BITS = {k for k, pats in READ_LIKE.items() if pats == [("slt", 0)] and k not in ("getchar", "getc", "read_next_entry")}
        nuse = 0
        for fn in mod.defined():
            if not (fn.file.endswith("_decoder.c") or fn.file.endswith("tree_decode.c") or fn.file.endswith("bit_stream_reader.c") or fn.file.endswith("pma_common.c")
                    or "/lib/" in fn.file or fn.file.startswith("lib/") or fn.file.startswith("./")):
                continue
            M6 = None
            for c in fn.insts():
                if c.op != "call" or mod.callee_cname(c) not in BITS:
                    continue
                cn = mod.callee_cname(c)
                M6 = M6 or Matcher(fn)
                F6 = ctx.facts(fn)
                # values that are the result itself: through widenings and phis
                carriers = {c.id}
                work = [c.id]
                uses = []
                while work:
                    vid = work.pop()
                    for u in fn.users(vid):
                        if u.op in ("zext", "sext", "trunc", "bitcast", "phi") :
                            if u.id not in carriers:
                                carriers.add(u.id)
                                work.append(u.id)
                        elif u.op == "icmp" or u.op == "ret" or u.op == "switch":
                            continue
                        elif u.op == "select" and u.ops and u.ops[0] != ("v", vid):
                            if u.id not in carriers:
                                carriers.add(u.id)
                                work.append(u.id)
                        else:
                            uses.append(u)
                for u in uses:
                    nuse += 1
                    fs = F6.at_inst(u)
                    ok = any(refutes_exhausted(M6, fs, v, cn) for v in carriers)
                    rep.check(rid, ok, "%s: result of %s at line %s is used by `%s` only behind a fact excluding failure" % (fn.cname, cn, c.line(), u.op), u.where(),
                              None if ok else "the value may be the failure result (-1): what is decoded from it depends on where the input ended",
                              function=fn.cname, obj="unchecked-%s-%d" % (cn, nuse))
        rep.extra["bit_read_uses"] = nuse
    return rep.finish(seed)


def blocks_after(fn, inst):
    seen = set()
    work = list(inst.block.succs)
    while work:
        b = work.pop()
        if b in seen:
            continue
        seen.add(b)
        work.extend(fn.blocks[b].succs)
    return seen
