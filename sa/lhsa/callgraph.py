"""E1 CG: call graph with indirect-call resolution, reachability, mod-sets."""
from .ir import Module, field_of_gep

UNKNOWN = "<unknown-external>"


def _fn_in_const(o):
    """function name referenced by a constant operand (through bitcasts)"""
    while o[0] == "ce" and o[1].op in ("bitcast",):
        o = o[1].ops[0]
    if o[0] == "fn":
        return o[1]
    return None


class CallGraph:
    def __init__(self, mod):
        self.mod = mod
        self.table = {}          # (StructCName, field) -> set(fn names) from initialisers/stores
        self.addr_taken = set()
        self._scan_globals()
        self._scan_insts()
        self.edges = {}          # fn name -> set(callee names)
        self.sites = {}          # (caller, callee) -> [inst]
        self.indirect = []       # (inst, resolved set, how)
        self._build()

    def _walk_init(self, init):
        k = init["k"]
        if k == "agg":
            t = self.mod.types.get(init["ty"])
            for idx, e in enumerate(init["elems"]):
                if e["k"] == "scalar":
                    f = _fn_in_const(e["v"])
                    if f:
                        self.addr_taken.add(f)
                        if t and t["k"] == "struct":
                            key = (Module.struct_cname(init["ty"]), self.mod.field_name(init["ty"], idx))
                            self.table.setdefault(key, set()).add(f)
                else:
                    self._walk_init(e)
        elif k == "scalar":
            f = _fn_in_const(init["v"])
            if f:
                self.addr_taken.add(f)

    def _scan_globals(self):
        for g in self.mod.globals.values():
            if "init" in g:
                self._walk_init(g["init"])

    def _scan_insts(self):
        for fn in self.mod.defined():
            for i in fn.insts():
                ops = list(i.ops)
                if i.op == "phi":
                    ops = [v for v, _ in i.incoming]
                for k, o in enumerate(ops):
                    f = _fn_in_const(o)
                    if f:
                        self.addr_taken.add(f)
                        if i.op == "store" and k == 0:
                            d = fn.defn(i.ops[1])
                            if d is not None and not d.is_param and d.op == "getelementptr":
                                fo = field_of_gep(self.mod, d)
                                if fo:
                                    self.table.setdefault(fo, set()).add(f)

    def resolve_indirect(self, inst):
        fn = inst.fn
        cv = inst.calleev
        d = fn.defn(cv) if cv else None
        while d is not None and not d.is_param and d.op == "bitcast":
            d = fn.defn(d.ops[0])
        if d is not None and not d.is_param and d.op == "load":
            a = fn.defn(d.ops[0])
            if a is not None and not a.is_param and a.op == "getelementptr":
                fo = field_of_gep(self.mod, a)
                if fo and fo in self.table:
                    return set(self.table[fo]), "field %s.%s" % fo
                if fo:
                    # a function-pointer field never initialised with a constant: it is filled
                    # from a parameter (callback); resolve by type over address-taken functions
                    cands = {UNKNOWN}
                    for name in self.addr_taken:
                        f = self.mod.functions.get(name)
                        if f is not None and f.fty == inst.d.get("fty"):
                            cands.add(name)
                    return cands, "field %s.%s (callback: by type)" % fo
        # by type over address-taken functions
        cands = set()
        for name in self.addr_taken:
            f = self.mod.functions.get(name)
            if f is not None and f.fty == inst.d.get("fty"):
                cands.add(name)
        cands.add(UNKNOWN)
        return cands, "type %s" % inst.d.get("fty")

    def _build(self):
        for fn in self.mod.defined():
            es = self.edges.setdefault(fn.name, set())
            for i in fn.insts():
                if i.op != "call":
                    continue
                if i.callee:
                    if i.callee.startswith("llvm.dbg") or i.callee.startswith("llvm.lifetime"):
                        continue
                    es.add(i.callee)
                    self.sites.setdefault((fn.name, i.callee), []).append(i)
                else:
                    if i.calleev and i.calleev[0] == "x":
                        continue
                    res, how = self.resolve_indirect(i)
                    self.indirect.append((i, res, how))
                    for c in res:
                        es.add(c)
                        self.sites.setdefault((fn.name, c), []).append(i)

    def reachable(self, roots):
        seen = set()
        work = list(roots)
        while work:
            f = work.pop()
            if f in seen:
                continue
            seen.add(f)
            for c in self.edges.get(f, ()):
                if c not in seen:
                    work.append(c)
        return seen

    def path(self, root, targets):
        """shortest call path root -> any of targets (list of names) or None"""
        from collections import deque
        prev = {root: None}
        dq = deque([root])
        while dq:
            f = dq.popleft()
            if f in targets and f != root:
                p = []
                while f is not None:
                    p.append(f)
                    f = prev[f]
                return p[::-1]
            for c in sorted(self.edges.get(f, ())):
                if c not in prev:
                    prev[c] = f
                    dq.append(c)
        return None

    def callers(self, name):
        return {f for f, es in self.edges.items() if name in es}

    # -- mod sets -----------------------------------------------------------
    def field_writers(self, sname, fname):
        """functions containing a direct store to (struct, field)"""
        from .rules import stores_to_field
        return {i.fn.name for i in stores_to_field(self.mod, sname, fname)}

    def may_write_field(self, fname_llvm, sname, field):
        w = self.field_writers(sname, field)
        return bool(self.reachable([fname_llvm]) & w)
