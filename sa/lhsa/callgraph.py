"""E1 CG: call graph with indirect-call resolution, reachability, mod-sets."""
from .ir import Module, field_of_gep

UNKNOWN = "<unknown-external>"


def _fn_in_const(o):
    """function name referenced by a constant operand (through bitcasts)"""
    while o[0] == "ce" and o[1].op in ("bitcast",):
        o = o[1].ops[0]
    if o[0] == "fn":
        return o[1]
    return None


class CallGraph:
    def __init__(self, mod):
        self.mod = mod
        self.table = {}          # (StructCName, field) -> set(fn names) from initialisers/stores
        self.addr_taken = set()
        self._scan_globals()
        self._scan_insts()
        self.edges = {}          # fn name -> set(callee names)
        self.sites = {}          # (caller, callee) -> [inst]
        self.indirect = []       # (inst, resolved set, how)
        self.flow_fields = {}    # (Struct, field) -> set(fn names | UNKNOWN) for callback fields filled from parameters
        self._flow()
        self._build()

    def _walk_init(self, init):
        k = init["k"]
        if k == "agg":
            t = self.mod.types.get(init["ty"])
            for idx, e in enumerate(init["elems"]):
                if e["k"] == "scalar":
                    f = _fn_in_const(e["v"])
                    if f:
                        self.addr_taken.add(f)
                        if t and t["k"] == "struct":
                            key = (Module.struct_cname(init["ty"]), self.mod.field_name(init["ty"], idx))
                            self.table.setdefault(key, set()).add(f)
                else:
                    self._walk_init(e)
        elif k == "scalar":
            f = _fn_in_const(init["v"])
            if f:
                self.addr_taken.add(f)

    def _scan_globals(self):
        for g in self.mod.globals.values():
            if "init" in g:
                self._walk_init(g["init"])

    def _scan_insts(self):
        for fn in self.mod.defined():
            for i in fn.insts():
                ops = list(i.ops)
                if i.op == "phi":
                    ops = [v for v, _ in i.incoming]
                for k, o in enumerate(ops):
                    f = _fn_in_const(o)
                    if f:
                        self.addr_taken.add(f)
                        if i.op == "store" and k == 0:
                            d = fn.defn(i.ops[1])
                            if d is not None and not d.is_param and d.op == "getelementptr":
                                fo = field_of_gep(self.mod, d)
                                if fo:
                                    self.table.setdefault(fo, set()).add(f)

    # ---- function-pointer flow through parameters into callback fields -------------------------
    def _trace(self, fn, o, seen=None):
        """what a function-pointer-typed operand may be: list of ('fn', name) | ('param', fname, k) | ('field', S, f) | ('unknown',)"""
        seen = seen or set()
        c = _fn_in_const(o)
        if c:
            return [("fn", c)]
        if o[0] == "null":
            return []
        d = fn.defn(o)
        if d is None:
            return [("unknown",)]
        if d.is_param:
            return [("param", fn.name, d.index)]
        if d.id in seen:
            return []
        seen = seen | {d.id}
        if d.op == "bitcast":
            return self._trace(fn, d.ops[0], seen)
        if d.op == "phi":
            r = []
            for v, _ in d.incoming:
                r += self._trace(fn, v, seen)
            return r
        if d.op == "select":
            return self._trace(fn, d.ops[1], seen) + self._trace(fn, d.ops[2], seen)
        if d.op == "load":
            a = fn.defn(d.ops[0])
            if a is not None and not a.is_param and a.op == "getelementptr":
                fo = field_of_gep(self.mod, a)
                if fo:
                    return [("field", fo[0], fo[1])]
        return [("unknown",)]

    def _flow(self):
        mod = self.mod
        psets = {}     # (fname, k) -> set of tokens
        fsets = {}     # (S, f) -> set of tokens
        fptr = lambda ty: ty.endswith(")*") and "(" in ty
        # seeds: stores of non-constant function pointers into fields
        for fn in mod.defined():
            for i in fn.insts():
                if i.op == "store" and fptr(i.d.get("vty", "")):
                    a = fn.defn(i.ops[1])
                    fo = field_of_gep(mod, a) if a is not None and not a.is_param and a.op == "getelementptr" else None
                    if fo:
                        fsets.setdefault(fo, set()).update(self._trace(fn, i.ops[0]))
        # call sites feeding parameters
        def targets_of(call):
            if call.callee:
                return [call.callee]
            d = call.fn.defn(call.calleev) if call.calleev else None
            while d is not None and not d.is_param and d.op == "bitcast":
                d = call.fn.defn(d.ops[0])
            if d is not None and not d.is_param and d.op == "load":
                a = call.fn.defn(d.ops[0])
                fo = field_of_gep(mod, a) if a is not None and not a.is_param and a.op == "getelementptr" else None
                if fo and fo in self.table:
                    return list(self.table[fo])
            return []
        for fn in mod.defined():
            for i in fn.insts():
                if i.op != "call":
                    continue
                for t in targets_of(i):
                    cf = mod.functions.get(t)
                    if cf is None or cf.decl:
                        continue
                    for k, a in enumerate(i.ops):
                        if k < len(cf.params) and fptr(cf.params[k].ty):
                            psets.setdefault((t, k), set()).update(self._trace(fn, a))
        # externally visible functions of the library may be called by user code with any callback
        for (t, k) in list(psets):
            cf = mod.functions[t]
            if not cf.internal:
                psets[(t, k)].add(("unknown",))
        for fn in mod.defined():
            if not fn.internal:
                for k, p_ in enumerate(fn.params):
                    if fptr(p_.ty):
                        psets.setdefault((fn.name, k), set()).add(("unknown",))
        # resolve to concrete functions
        def resolve(tokens, seen):
            out = set()
            for t in tokens:
                if t[0] == "fn":
                    out.add(t[1])
                elif t[0] == "unknown":
                    out.add(UNKNOWN)
                elif t in seen:
                    continue
                elif t[0] == "param":
                    out |= resolve(psets.get((t[1], t[2]), {("unknown",)}), seen | {t})
                elif t[0] == "field":
                    if (t[1], t[2]) in self.table:
                        out |= set(self.table[(t[1], t[2])])
                    else:
                        out |= resolve(fsets.get((t[1], t[2]), {("unknown",)}), seen | {t})
            return out
        for fo, toks in fsets.items():
            if fo not in self.table:
                self.flow_fields[fo] = resolve(toks, frozenset())

    def resolve_indirect(self, inst):
        fn = inst.fn
        cv = inst.calleev
        d = fn.defn(cv) if cv else None
        while d is not None and not d.is_param and d.op == "bitcast":
            d = fn.defn(d.ops[0])
        if d is not None and not d.is_param and d.op == "load":
            a = fn.defn(d.ops[0])
            if a is not None and not a.is_param and a.op == "getelementptr":
                fo = field_of_gep(self.mod, a)
                if fo and fo in self.table:
                    return set(self.table[fo]), "field %s.%s" % fo
                if fo and fo in self.flow_fields:
                    return set(self.flow_fields[fo]), "field %s.%s (callback: parameter flow)" % fo
                if fo:
                    # a function-pointer field never initialised with a constant: it is filled
                    # from a parameter (callback); resolve by type over address-taken functions
                    cands = {UNKNOWN}
                    for name in self.addr_taken:
                        f = self.mod.functions.get(name)
                        if f is not None and f.fty == inst.d.get("fty"):
                            cands.add(name)
                    return cands, "field %s.%s (callback: by type)" % fo
        # by type over address-taken functions
        cands = set()
        for name in self.addr_taken:
            f = self.mod.functions.get(name)
            if f is not None and f.fty == inst.d.get("fty"):
                cands.add(name)
        cands.add(UNKNOWN)
        return cands, "type %s" % inst.d.get("fty")

    def _build(self):
        for fn in self.mod.defined():
            es = self.edges.setdefault(fn.name, set())
            for i in fn.insts():
                if i.op != "call":
                    continue
                if i.callee:
                    if i.callee.startswith("llvm.dbg") or i.callee.startswith("llvm.lifetime"):
                        continue
                    es.add(i.callee)
                    self.sites.setdefault((fn.name, i.callee), []).append(i)
                else:
                    if i.calleev and i.calleev[0] == "x":
                        continue
                    res, how = self.resolve_indirect(i)
                    self.indirect.append((i, res, how))
                    for c in res:
                        es.add(c)
                        self.sites.setdefault((fn.name, c), []).append(i)

    def reachable(self, roots):
        seen = set()
        work = list(roots)
        while work:
            f = work.pop()
            if f in seen:
                continue
            seen.add(f)
            for c in self.edges.get(f, ()):
                if c not in seen:
                    work.append(c)
        return seen

    def path(self, root, targets):
        """shortest call path root -> any of targets (list of names) or None"""
        from collections import deque
        prev = {root: None}
        dq = deque([root])
        while dq:
            f = dq.popleft()
            if f in targets and f != root:
                p = []
                while f is not None:
                    p.append(f)
                    f = prev[f]
                return p[::-1]
            for c in sorted(self.edges.get(f, ())):
                if c not in prev:
                    prev[c] = f
                    dq.append(c)
        return None

    def callers(self, name):
        return {f for f, es in self.edges.items() if name in es}

    # -- mod sets -----------------------------------------------------------
    def field_writers(self, sname, fname):
        """functions containing a direct store to (struct, field)"""
        from .rules import stores_to_field
        return {i.fn.name for i in stores_to_field(self.mod, sname, fname)}

    def may_write_field(self, fname_llvm, sname, field):
        w = self.field_writers(sname, field)
        return bool(self.reachable([fname_llvm]) & w)
