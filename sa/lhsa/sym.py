"""Symbolic (linear) bounds on top of the interval analysis: relational facts of the kind
`read <= 24 - leadin_len`, `bytes = min(a, b)`, `i + 12 < leadin_len` that an interval domain loses.

upper(o, inst) / lower(o, inst) bound operand o at instruction inst by
  1. writing o as a linear form over atoms (SSA values that are not linear arithmetic),
  2. replacing atoms by symbolic upper / lower bounds known for them:
       - contract results: a read-like call returns at most its length argument (K2),
       - branch facts available at inst (must-facts of facts.py): a < y, a <= y,
       - min shapes: a phi whose incomings are each <= one of them,
     until the atoms cancel, and
  3. evaluating what remains with the intervals of the RANGE analysis.
"""
from .facts import Facts, Matcher, is_const, const_val
from .lin import Lin
from .range import I, P, INF, unsigned, srange, urange

LESS = {"ult": 1, "slt": 1, "ule": 0, "sle": 0}
GREATER = {"ugt": 1, "sgt": 1, "uge": 0, "sge": 0}


class Sym:
    def __init__(self, an, facts=None, ideal=False):
        # ideal: reason over mathematical integers (casts transparent, no wrap-around): only for rules that state
        # the corresponding size assumption explicitly
        self.ideal = ideal
        self.an = an
        self.fn = an.fn
        self.F = facts or Facts(an.fn)
        self.M = Matcher(an.fn)
        self.k2 = {}           # atom id -> operand (the value is <= that operand's value, both non-negative)
        self._la = {}
        self._ind_guard = set()
        self._cons = {}

    # ---- linear forms -----------------------------------------------------------------
    def iv(self, o, inst):
        env = self.an.env_out.get(inst.block.id, {}) if inst is not None else {}
        v = self.an.lookup(o, env)
        return v if isinstance(v, I) else None

    def lin(self, o, inst, depth=0):
        if is_const(o):
            return Lin(const_val(o))
        d = self.fn.defn(o)
        if d is None or depth > 30:
            return None
        if d.is_param:
            return Lin(0, {o[1]: 1})
        w = self.an.width(d.ty)
        if self.ideal and d.op in ("zext", "sext", "trunc"):
            return self.lin(d.ops[0], inst, depth + 1)
        if self.ideal and d.op in ("add", "sub"):
            a = self.lin(d.ops[0], inst, depth + 1)
            b = self.lin(d.ops[1], inst, depth + 1)
            if a is None or b is None:
                return Lin(0, {o[1]: 1})
            return a.add(b, 1 if d.op == "add" else -1)
        if d.op in ("zext", "sext"):
            src = self.iv(d.ops[0], inst)
            if src is not None and not src.bot() and (d.op == "sext" or src.lo >= 0):
                return self.lin(d.ops[0], inst, depth + 1)
            return Lin(0, {o[1]: 1})
        if d.op == "trunc":
            src = self.iv(d.ops[0], inst)
            if src is not None and not src.bot() and w and srange(w)[0] <= src.lo and src.hi <= srange(w)[1]:
                return self.lin(d.ops[0], inst, depth + 1)
            if src is not None and not src.bot() and w and 0 <= src.lo and src.hi <= urange(w)[1]:
                # fits unsigned: the value is preserved as an unsigned number; ok if used as such
                return self.lin(d.ops[0], inst, depth + 1)
            return Lin(0, {o[1]: 1})
        if d.op in ("add", "sub"):
            a = self.lin(d.ops[0], inst, depth + 1)
            b = self.lin(d.ops[1], inst, depth + 1)
            if a is None or b is None:
                return Lin(0, {o[1]: 1})
            # the linear reading is valid only if the machine operation does not wrap: checked with intervals
            res = self.iv(o, inst)
            ia, ib = self.iv(d.ops[0], inst), self.iv(d.ops[1], inst)
            if ia is None or ib is None or ia.bot() or ib.bot() or ia.lo == -INF or ib.lo == -INF:
                return Lin(0, {o[1]: 1})
            lo = ia.lo + ib.lo if d.op == "add" else ia.lo - ib.hi
            hi = ia.hi + ib.hi if d.op == "add" else ia.hi - ib.lo
            smin, smax = srange(w) if w else (-INF, INF)
            if not (smin <= lo and hi <= smax):
                # may wrap in the signed reading; accept when both operands and the result are provably within the
                # unsigned range and the mathematical result cannot leave it (checked by the caller through lower())
                if not (lo >= smin * 2 and hi <= urange(w)[1]):
                    return Lin(0, {o[1]: 1})
            return a.add(b, 1 if d.op == "add" else -1)
        if d.op == "mul" and is_const(d.ops[1]):
            a = self.lin(d.ops[0], inst, depth + 1)
            return a.scale(const_val(d.ops[1])) if a is not None else Lin(0, {o[1]: 1})
        if d.op == "shl" and is_const(d.ops[1]):
            a = self.lin(d.ops[0], inst, depth + 1)
            return a.scale(1 << const_val(d.ops[1])) if a is not None else Lin(0, {o[1]: 1})
        if d.op == "load":
            return Lin(0, {self._load_atom(d): 1})
        return Lin(0, {o[1]: 1})

    def _load_atom(self, d):
        """canonical atom for a load: an earlier load of the same struct field of the same object, when no store to
        that field and no call to a defined function that may write it can execute in between (frame condition:
        foreign callbacks do not modify the library's own objects)"""
        if d.id in self._la:
            return self._la[d.id]
        from .ir import field_of_gep
        from .mem import _between
        res = d.id
        a = self.fn.defn(self.M.strip(d.ops[0], ("bitcast",)))
        fo = field_of_gep(self.fn.mod, a) if a is not None and not a.is_param and a.op == "getelementptr" else None
        if fo:
            base = self.M.strip(a.ops[0], ("bitcast",))
            for e in self.fn.insts():
                if e.op != "load" or e.id == d.id or e.ty != d.ty:
                    continue
                a2 = self.fn.defn(self.M.strip(e.ops[0], ("bitcast",)))
                if a2 is None or a2.is_param or a2.op != "getelementptr" or field_of_gep(self.fn.mod, a2) != fo:
                    continue
                if self.M.strip(a2.ops[0], ("bitcast",)) != base:
                    continue
                if not self.fn.dominates(e.block.id, d.block.id) or (e.block.id == d.block.id and e.idx > d.idx):
                    continue
                clob = False
                for x in _between(self.fn, e, d):
                    if x.op == "store":
                        ax = self.fn.defn(self.M.strip(x.ops[1], ("bitcast",)))
                        fx = field_of_gep(self.fn.mod, ax) if ax is not None and not ax.is_param and ax.op == "getelementptr" else None
                        if fx == fo or fx is None and x.size == d.size and False:
                            clob = True
                    elif x.op == "call" and x.callee:
                        cf = self.fn.mod.functions.get(x.callee)
                        if cf is not None and not cf.decl:
                            clob = True          # a defined (non-inlined) callee: may write the field
                        elif x.callee.startswith("llvm.mem") and self.an is not None:
                            # memcpy/memset whose destination is this very field
                            pd = self.an.lookup(x.ops[0], {})
                            if isinstance(pd, P) and pd.region[0] == "sub" and pd.region[2].endswith("." + fo[1]):
                                clob = True
                if not clob:
                    e_atom = self._load_atom(e) if e.id != d.id else e.id
                    res = min(res, e_atom)
        self._la[d.id] = res
        return res

    # ---- atom bounds -----------------------------------------------------------------------
    def atom_ubs(self, a, inst):
        """list of Lin U with atom <= U valid at inst"""
        out = []
        o = ("v", a)
        if a in self.k2:
            l = self.lin(self.k2[a], inst)
            if l is not None:
                out.append(l)
        for f in self.F.at_inst(inst):
            p, x, y = f
            if p not in LESS and p not in GREATER:
                continue
            if p[0] == "u" and not (self._nonneg(x, inst) and self._nonneg(y, inst)):
                continue
            lx, ly = self.lin(x, inst), self.lin(y, inst)
            if lx is None or ly is None:
                continue
            # X < Y  (or <=): a*k + rest_x < Y  ->  a <= Y - rest_x - strict   (k == 1)
            if p in LESS and lx.t.get(a, 0) == 1 and a not in ly.t:
                rest = Lin(lx.c, {k: v for k, v in lx.t.items() if k != a})
                out.append(ly.add(rest, -1).add(Lin(LESS[p]), -1))
            if p in GREATER and ly.t.get(a, 0) == 1 and a not in lx.t:
                rest = Lin(ly.c, {k: v for k, v in ly.t.items() if k != a})
                out.append(lx.add(rest, -1).add(Lin(GREATER[p]), -1))
        out.extend(self._loop_exit_ub(a, inst))
        out.extend(self._phi_inductive_ub(a, inst))
        out.extend(self._conservation(a, inst))
        d = self.fn.defn(o)
        if d is not None and not d.is_param and d.op == "phi" and len(d.incoming) <= 4:
            # min shape: every incoming is <= candidate incoming U
            for u, _ in d.incoming:
                lu = self.lin(u, inst)
                if lu is None:
                    continue
                ok = True
                for v, pb in d.incoming:
                    if v == u:
                        continue
                    lv = self.lin(v, inst)
                    if lv is not None and lv == lu:
                        continue
                    facts = self.F.on_edge(pb, d.block.id)
                    if not self._le_by_facts(v, u, facts):
                        ok = False
                        break
                if ok:
                    out.append(lu)
        if d is not None and not d.is_param and d.op == "select":
            c, x, y = d.ops
            ft = self.F.cond_facts(c, True)
            ff = self.F.cond_facts(c, False)
            for u, other, fu, fo in ((x, y, ft, ff), (y, x, ff, ft)):
                lu = self.lin(u, inst)
                # value is u when its condition holds, else `other`: need other <= u under other's condition
                if lu is not None and self._le_by_facts(other, u, fo):
                    out.append(lu)
        return out

    def _loop_exit_ub(self, a, inst):
        """atom a is a loop counter (init, +1 per iteration) whose loop is left only when `a + c >= B`;
        outside the loop a <= max(init, B - c): returned as a ('max', U1, U2) marker"""
        d = self.fn.vals.get(a)
        if d is None or getattr(d, "is_param", False) or d.op != "phi":
            return []
        lp = None
        for l in self.fn.loops():
            if l["header"] == d.block.id:
                lp = l
        if lp is None or inst.block.id in lp["body"]:
            return []
        inits = [v for v, pb in d.incoming if pb not in lp["body"]]
        backs = [v for v, pb in d.incoming if pb in lp["body"]]
        if len(inits) != 1 or not all(self.M.match(("bin", "add", ("inst", a), 1), v, {}) is not None for v in backs):
            return []
        res = []
        for (b, s_) in lp["exits"]:
            if b != lp["header"]:
                continue
            for f in self.F.edge_facts(b, s_):
                p, x, y = f
                if p not in GREATER or (p[0] == "u" and not (self._nonneg(x, inst) and self._nonneg(y, inst))):
                    continue
                hdr_inst = self.fn.blocks[b].term
                lx, ly = self.lin(x, hdr_inst), self.lin(y, hdr_inst)
                if lx is None or ly is None or lx.t.get(a, 0) != 1 or a in ly.t:
                    continue
                # exit when a + rest >= Y (+1 if strict): first such a is max(init, Y - rest (+1))
                rest = Lin(lx.c, {k: v for k, v in lx.t.items() if k != a})
                u2 = ly.add(rest, -1).add(Lin(GREATER[p]))
                u1 = self.lin(inits[0], hdr_inst)
                if u1 is not None:
                    res.append(("max", u1, u2))
        # only valid if the instruction is reached through that header exit alone
        if res and all(b == lp["header"] for (b, s_) in lp["exits"] if self._reaches(s_, inst.block.id)):
            return res
        return []

    def _phi_inductive_ub(self, a, inst):
        """loop-header phi a <= C when its initial value is <= C and every back-edge value is <= C by symbolic
        reasoning that does not depend on a itself (e.g. a + n with n <= C - a)"""
        d = self.fn.vals.get(a)
        if d is None or getattr(d, "is_param", False) or d.op != "phi" or a in self._ind_guard:
            return []
        lp = None
        for l in self.fn.loops():
            if l["header"] == d.block.id:
                lp = l
        if lp is None:
            return []
        self._ind_guard.add(a)
        try:
            consts = set()
            for blk in lp["body"]:
                t = self.fn.blocks[blk].term
                cd = self.fn.defn(t.ops[0]) if t.op == "br" and len(t.ops) == 1 else None
                if cd is not None and not cd.is_param and cd.op == "icmp":
                    for o in cd.ops:
                        if is_const(o):
                            consts.add(const_val(o))
            out = []
            for C in sorted(consts):
                ok = True
                for v, pb in d.incoming:
                    term = self.fn.blocks[pb].term
                    if self.upper(v, term) > C:
                        ok = False
                        break
                if ok:
                    out.append(Lin(C))
                    break
            return out
        finally:
            self._ind_guard.discard(a)

    def _reaches(self, a, b):
        seen, work = {a}, [a]
        while work:
            x = work.pop()
            if x == b:
                return True
            for s_ in self.fn.blocks[x].succs:
                if s_ not in seen:
                    seen.add(s_)
                    work.append(s_)
        return False

    def _conservation(self, a, inst):
        """loop-header phi P with a sibling Q such that every iteration changes them by opposite amounts:
        P + Q is constant, so P == init_P + init_Q - Q (returned as a bound in both directions)"""
        if a in self._cons:
            return self._cons[a]
        res = []
        d = self.fn.vals.get(a)
        if d is not None and not getattr(d, "is_param", False) and d.op == "phi":
            lp = None
            for l in self.fn.loops():
                if l["header"] == d.block.id:
                    lp = l
            if lp is not None:
                hdr = self.fn.blocks[lp["header"]]

                def delta(phi):
                    ds = None
                    init = None
                    for v, pb in phi.incoming:
                        term = self.fn.blocks[pb].term
                        if pb in lp["body"]:
                            lv = self.lin(v, term)
                            if lv is None:
                                return None
                            dl = lv.add(Lin(0, {phi.id: 1}), -1)
                            if phi.id in dl.t:
                                return None
                            if ds is None:
                                ds = dl
                            elif ds != dl:
                                return None
                        else:
                            li = self.lin(v, term)
                            if li is None or init is not None:
                                return None
                            init = li
                    return (ds, init) if ds is not None and init is not None else None

                dp = delta(d)
                if dp is not None and dp[0].t:
                    for q in hdr.insts:
                        if q.op != "phi" or q.id == a or self.an.is_ptr(q.ty):
                            continue
                        dq = delta(q)
                        if dq is None:
                            continue
                        if dp[0].add(dq[0]) == Lin(0):
                            S = dp[1].add(dq[1])
                            res.append(S.add(Lin(0, {q.id: 1}), -1))
        self._cons[a] = res
        return res

    def atom_lbs(self, a, inst):
        out = list(self._conservation(a, inst))
        for f in self.F.at_inst(inst):
            p, x, y = f
            if p not in LESS and p not in GREATER:
                continue
            if p[0] == "u" and not (self._nonneg(x, inst) and self._nonneg(y, inst)):
                continue
            lx, ly = self.lin(x, inst), self.lin(y, inst)
            if lx is None or ly is None:
                continue
            if p in GREATER and lx.t.get(a, 0) == 1 and a not in ly.t:
                rest = Lin(lx.c, {k: v for k, v in lx.t.items() if k != a})
                out.append(ly.add(rest, -1).add(Lin(GREATER[p])))
            if p in LESS and ly.t.get(a, 0) == 1 and a not in lx.t:
                rest = Lin(ly.c, {k: v for k, v in ly.t.items() if k != a})
                out.append(lx.add(rest, -1).add(Lin(LESS[p])))
        return out

    def _nonneg(self, o, inst):
        if self.ideal:
            return True
        v = self.iv(o, inst)
        return v is not None and not v.bot() and v.lo >= 0

    def _le_by_facts(self, v, u, facts):
        """facts imply v <= u"""
        vs, us = self.M.strip(v), self.M.strip(u)
        if is_const(us):
            cu = const_val(us)
            for p, x, y in facts:
                if (self.M.strip(x) == vs or x == v) and is_const(y) and p in LESS and const_val(y) - LESS[p] <= cu:
                    return True
            return False
        if is_const(vs) and const_val(vs) is not None:
            # constant <= u: a lower bound for u among the facts (u > k, u >= k with k (+1) >= the constant)
            cv = const_val(vs)
            if cv >= (1 << 63):
                cv -= (1 << 64)
            for p, x, y in facts:
                if (self.M.strip(x) == us or x == u) and is_const(y) and const_val(y) is not None and p in GREATER:
                    k = const_val(y)
                    if p[0] == "s" and k >= (1 << 31):
                        k -= (1 << 32) if k < (1 << 32) else (1 << 64)
                    if p[0] == "u" and cv < 0:
                        continue
                    if k + GREATER[p] >= cv:
                        return True
            return False
        for p, x, y in facts:
            xs, ys = self.M.strip(x), (self.M.strip(y) if not is_const(y) else y)
            if (xs == vs or x == v) and (ys == us or y == u) and p in LESS:
                return True
            if (xs == us or x == u) and (ys == vs or y == v) and p in GREATER:
                return True
        return False

    # ---- bounds of linear forms ------------------------------------------------------------------
    def _eval(self, L, inst, upper):
        tot = L.c
        for a, c in L.t.items():
            v = self.iv(("v", a), inst)
            if v is None or v.bot():
                return INF if upper else -INF
            x = (v.hi if c > 0 else v.lo) if upper else (v.lo if c > 0 else v.hi)
            if x in (INF, -INF):
                return INF if upper else -INF
            tot += c * x
        return tot

    def upper_lin(self, L, inst, depth=0):
        best = self._eval(L, inst, True)
        if depth >= 3 or not L.t:
            return best
        for a, c in list(L.t.items()):
            cands = self.atom_ubs(a, inst) if c > 0 else self.atom_lbs(a, inst)
            for U in cands:
                if isinstance(U, tuple):
                    if c <= 0:
                        continue
                    vals = []
                    for Ui in U[1:]:
                        if a in Ui.t:
                            vals = None
                            break
                        vals.append(self.upper_lin(Lin(L.c, {k: v for k, v in L.t.items() if k != a}).add(Ui, c), inst, depth + 1))
                    if vals:
                        best = min(best, max(vals))
                    continue
                if a in U.t:
                    continue
                L2 = Lin(L.c, {k: v for k, v in L.t.items() if k != a}).add(U, c)
                best = min(best, self.upper_lin(L2, inst, depth + 1))
        return best

    def lower_lin(self, L, inst, depth=0):
        best = self._eval(L, inst, False)
        if depth >= 3 or not L.t:
            return best
        for a, c in list(L.t.items()):
            cands = self.atom_lbs(a, inst) if c > 0 else self.atom_ubs(a, inst)
            for U in cands:
                if isinstance(U, tuple):
                    if c >= 0:
                        continue
                    vals = []
                    for Ui in U[1:]:
                        if a in Ui.t:
                            vals = None
                            break
                        vals.append(self.lower_lin(Lin(L.c, {k: v for k, v in L.t.items() if k != a}).add(Ui, c), inst, depth + 1))
                    if vals:
                        best = max(best, min(vals))
                    continue
                if a in U.t:
                    continue
                L2 = Lin(L.c, {k: v for k, v in L.t.items() if k != a}).add(U, c)
                best = max(best, self.lower_lin(L2, inst, depth + 1))
        return best

    def upper(self, o, inst):
        L = self.lin(o, inst)
        return INF if L is None else self.upper_lin(L, inst)

    def lower(self, o, inst):
        L = self.lin(o, inst)
        return -INF if L is None else self.lower_lin(L, inst)

    # ---- pointer offsets -----------------------------------------------------------------------------
    def ptr_offset_lin(self, o, inst, depth=0):
        """byte offset (Lin) of pointer operand o relative to the start of its innermost region"""
        d = self.fn.defn(o)
        if d is None or d.is_param or depth > 20:
            return Lin(0)
        if d.op == "bitcast":
            return self.ptr_offset_lin(d.ops[0], inst, depth + 1)
        if d.op == "getelementptr":
            off = Lin(0)
            reset = False
            for st in d.steps:
                if st["k"] == "field":
                    off = Lin(0)
                    reset = True
                elif st["k"] in ("ptr", "arr"):
                    l = self.lin(st["idx"], inst)
                    if l is None:
                        return None
                    off = off.add(l.scale(st["el_size"]))
                else:
                    return None
            if reset:
                return off
            base = self.ptr_offset_lin(d.ops[0], inst, depth + 1)
            return None if base is None else base.add(off)
        if d.op in ("alloca", "call", "load"):
            return Lin(0)
        if d.op == "phi":
            return None
        return Lin(0)
