"""debug helper: python3 -m lhsa.dump <json> <function>"""
import sys
from .ir import Module
from .facts import Facts, describe, describe_fact


def opstr(fn, o):
    if o[0] == "v":
        n = fn.var_name(o[1])
        return "%%%d%s" % (o[1], "(" + n + ")" if n else "")
    if o[0] == "ci":
        return str(o[1])
    if o[0] == "ce":
        s = fn.mod.const_string(o)
        return repr(s) if s is not None else repr(o[1])
    return ":".join(map(str, o))


def dump(fn, facts=False):
    F = Facts(fn) if facts else None
    print("fn %s (%s) %s" % (fn.name, fn.file, fn.fty))
    for b in fn.blocks:
        print(" bb%d %s preds=%s succs=%s" % (b.id, b.name, b.preds, b.succs))
        if F:
            for f in sorted(F.at_block(b.id), key=str):
                print("      | " + describe_fact(fn, f))
        for i in b.insts:
            extra = ""
            if i.op == "icmp":
                extra = i.pred
            elif i.op == "call":
                extra = fn.mod.callee_cname(i) or "indirect"
            elif i.op == "getelementptr":
                extra = "/".join(("%s.%s" % (fn.mod.struct_cname(s["struct"]), fn.mod.field_name(s["struct"], s["field"])) if s["k"] == "field" else "[%s]" % opstr(fn, s["idx"])) for s in i.steps)
            elif i.op == "phi":
                extra = " ".join("[%s,bb%d]" % (opstr(fn, v), b2) for v, b2 in i.incoming)
            elif i.op in ("br",):
                extra = "-> %s" % i.succs
            elif i.op == "switch":
                extra = "default bb%d cases %s" % (i.d["default"], i.d["cases"])
            print("   %%%d = %s %s %s %s   ; L%s" % (i.id, i.op, i.ty, extra, " ".join(opstr(fn, o) for o in i.ops), i.line()))


if __name__ == "__main__":
    m = Module(sys.argv[1])
    for f in m.fns(sys.argv[2]):
        dump(f, len(sys.argv) > 3)
