"""E9 SCAN: conformance of a hand-written component scanner with the component transducer.

A *component scanner* walks a NUL-terminated string one byte per iteration with a read cursor R, keeps the start CP of the
component it is in, and (the in-place filter) copies the byte to a write cursor W.  What such a loop does to a string is decided
by what one iteration does to (CP, W) and under which tests - a finite set of paths through the loop body, each ending in one of
four moves:

   copy    the byte was not a separator:            CP' = CP,   W' = W + 1
   accept  separator, component kept:                CP' = W' = W + 1     -- only if [CP, W) cannot be "", "." or ".."
   drop    separator, component and separator gone:  CP' = CP,   W' = CP
   pop     separator, previous component gone too:   CP' = W' = X,  X = base of the string, or the end X of a walk back from CP - 1
                                                     that moves by -1 while X > base and stops where X == base or X[-1] == '/'

With the invariant  [base, CP) in (good '/')*,  [CP, W) free of '/',  CP <= W <= R  every move keeps the invariant (accept because
its guard excludes the three bad components; pop because a position of [base, CP) that follows a '/' is a component boundary), so
at the end [base, W) has only real names before each '/'.  The engine enumerates the paths of one iteration (inner loops collapsed
to their exit edges), resolves the header phis along each path, collects the branch facts of the path as constraints on
LEN = W - CP and on the bytes CP[0], CP[1], R[0], and reports every path that is none of the four moves, or an accept whose
constraints leave a bad component possible.  The detector variant (no W: a scanner that must *report* a ".." component) has the
moves copy / accept / report and the same accept guard for ".." alone, also at the end of the string.

Nothing here looks at names, statement order or nesting: a reordered, merged or split chain of tests gives the same path
constraints.  A scanner written over indices instead of pointers, or with a different algorithm (two passes, a table), is outside
this engine and reported as not recognised.
"""
from .facts import Facts, Matcher, ANY as ANY_, is_const, const_val

SEP = 47
DOT = 46
CASTS = ("zext", "sext", "trunc", "bitcast")


class Path:
    __slots__ = ("facts", "env", "end", "info", "blocks", "inner")

    def __init__(self, facts, env, end, info, blocks, inner):
        self.facts, self.env, self.end, self.info, self.blocks, self.inner = facts, env, end, info, blocks, inner


class Scanner:
    def __init__(self, fn, F=None):
        self.fn = fn
        self.F = F or Facts(fn)
        self.M = Matcher(fn)
        self.loops = fn.loops()

    # ---- values along a path ----------------------------------------------------------------------------------------
    def resolve(self, o, env):
        """operand with casts stripped and phis replaced by what they received along the path"""
        seen = 0
        while True:
            if is_const(o):
                return o
            d = self.fn.defn(o)
            if d is None or d.is_param:
                return o
            if d.op == "bitcast":
                o = d.ops[0]
                continue
            if d.op == "phi" and d.id in env and seen < 32:
                n = env[d.id]
                if n == ("v", d.id):
                    return n
                o = n
                seen += 1
                continue
            return ("v", d.id)

    def ptr(self, o, env):
        """(base operand, byte offset) of a pointer value: constant geps over i8 folded, phis resolved along the path"""
        off = 0
        for _ in range(64):
            o = self.resolve(o, env)
            d = self.fn.defn(o)
            if d is None or d.is_param or is_const(o):
                return o, off
            if d.op == "getelementptr":
                idx = [s for s in d.steps if "idx" in s]
                if len(d.steps) == 1 and len(idx) == 1 and is_const(idx[0]["idx"]) and d.ty in ("i8*",):
                    c = const_val(idx[0]["idx"])
                    if c is None:
                        return o, off
                    if c >= (1 << 63):
                        c -= (1 << 64)
                    off += c
                    o = d.ops[0]
                    continue
            return o, off
        return o, off

    def lin(self, o, env, depth=0):
        """integer value as ({pointer base: coeff}, const) when it is built from pointer differences and constants, else None"""
        if is_const(o):
            c = const_val(o)
            return ({}, c) if c is not None else None
        o = self.resolve(o, env)
        d = self.fn.defn(o)
        if d is None or d.is_param or depth > 12:
            return None
        if d.op in ("trunc", "zext", "sext"):
            return self.lin(d.ops[0], env, depth + 1)
        if d.op == "ptrtoint":
            b, off = self.ptr(d.ops[0], env)
            return ({b: 1}, off)
        if d.op in ("add", "sub"):
            x, y = self.lin(d.ops[0], env, depth + 1), self.lin(d.ops[1], env, depth + 1)
            if x is None or y is None:
                return None
            sg = 1 if d.op == "add" else -1
            co = dict(x[0])
            for k, v in y[0].items():
                co[k] = co.get(k, 0) + sg * v
            cst = x[1] + sg * y[1]
            return ({k: v for k, v in co.items() if v != 0}, cst)
        return None

    def byte_at(self, o, env):
        """if o is (a widening of) a load of one byte: (base, offset) of its address"""
        o = self.resolve(o, env)
        d = self.fn.defn(o)
        for _ in range(4):
            if d is not None and not d.is_param and d.op in ("zext", "sext"):
                o = self.resolve(d.ops[0], env)
                d = self.fn.defn(o)
        if d is not None and not d.is_param and d.op == "load" and d.size == 1:
            return self.ptr(d.ops[0], env)
        return None

    def _resolve_bool(self, o, env, depth=0):
        """(operand or constant, negated): the branch condition o with phis replaced by what they received on the path, looking through
        widenings and `x != 0` / `x == 0` of boolean-like values (a helper's `return a && b;` merged into one status)"""
        if is_const(o) or depth > 8:
            return o, False
        o = self.resolve(o, env)
        if is_const(o):
            return o, False
        d = self.fn.defn(o)
        if d is None or d.is_param:
            return o, False
        if d.op in ("zext", "sext", "trunc"):
            return self._resolve_bool(d.ops[0], env, depth + 1)
        if d.op == "icmp" and d.pred in ("ne", "eq") and is_const(d.ops[1]) and const_val(d.ops[1]) == 0:
            inner, neg = self._resolve_bool(d.ops[0], env, depth + 1)
            di = self.fn.defn(inner) if not is_const(inner) else None
            if is_const(inner) or (di is not None and not di.is_param and (di.op == "icmp" or di.ty == "i1")):
                return inner, (neg if d.pred == "ne" else not neg)
        if d.op == "xor" and is_const(d.ops[1]) and const_val(d.ops[1]) in (1, -1, True):
            inner, neg = self._resolve_bool(d.ops[0], env, depth + 1)
            return inner, not neg
        return o, False

    def branch_facts(self, b, s, env):
        """facts of taking edge b -> s on a path with phi assignment env; None if the edge cannot be taken on this path"""
        blk = self.fn.blocks[b]
        t = blk.term
        if t.op == "br" and len(t.ops) == 1 and len(t.succs) == 2 and t.succs[0] != t.succs[1]:
            truth = (s == t.succs[0])
            c, neg = self._resolve_bool(t.ops[0], env)
            if is_const(c) and const_val(c) is not None:
                return frozenset() if (bool(const_val(c)) != neg) == truth else None
            if c != t.ops[0] or neg:
                return self.F.cond_facts(c, truth != neg)
        return self.F.edge_facts(b, s)

    # ---- path enumeration ---------------------------------------------------------------------------------------------
    def paths(self, start, L=None, env0=None, prev=None, stop_at=None, cap=4000, follow_exits=True):
        """all paths from block `start`: through one iteration of loop L when L is given (end 'back'), to a return (end 'ret', info =
        resolved return operand or None) or to block stop_at (end 'stop').  Loops other than L met on the way are crossed from their
        header to each of their exit edges in one step (their header phis stay symbolic; entry values are recorded in path.inner)."""
        fn, F = self.fn, self.F
        out = []
        hdrs = {l["header"]: l for l in self.loops if L is None or (l["header"] != L["header"] and (l["body"] < L["body"] or l["header"] not in L["body"]))}

        def enter(b, s, env, inner):
            """env after taking edge b -> s (phis of s assigned)"""
            env = dict(env)
            for i in fn.blocks[s].insts:
                if i.op != "phi":
                    break
                for v, pb in i.incoming:
                    if pb == b:
                        env[i.id] = self.resolve(v, env) if not is_const(v) else v
            return env

        def rec(b, env, facts, blocks, inner, depth):
            if len(out) > cap or depth > 400:
                out.append(Path(facts, env, "overflow", None, blocks, inner))
                return
            blk = fn.blocks[b]
            t = blk.term
            if t.op == "ret":
                out.append(Path(facts, env, "ret", (self.resolve(t.ops[0], env) if t.ops else None), blocks + [b], inner))
                return
            if t.op == "unreachable" or not blk.succs:
                out.append(Path(facts, env, "noreturn", None, blocks + [b], inner))
                return
            succs = blk.succs
            for s in succs:
                bf = self.branch_facts(b, s, env)
                if bf is None:
                    continue                    # decided by the compiler, or by what the status phis received on this path
                f2 = facts + [(f, dict(env)) for f in bf if f[0] != "in"]
                if L is not None and s == L["header"]:
                    out.append(Path(f2, enter(b, s, env, inner), "back", b, blocks + [b], inner))
                    continue
                if stop_at is not None and s == stop_at:
                    out.append(Path(f2, enter(b, s, env, inner), "stop", b, blocks + [b], inner))
                    continue
                if s in hdrs and b not in hdrs[s]["body"]:
                    il = hdrs[s]
                    # entry values of the inner loop's header phis, then the phis become symbolic
                    e_in = enter(b, s, env, inner)
                    init = {i.id: e_in.get(i.id) for i in fn.blocks[s].insts if i.op == "phi"}
                    e_sym = dict(env)
                    for pid in init:
                        e_sym[pid] = ("v", pid)
                    inner2 = inner + [(il, init)]
                    for (xf, xenv, eb, es) in self._exit_paths(il, e_sym, enter):
                        # facts of the last pass through the inner loop (from its header, phis symbolic, to the exit edge), plus the
                        # must-facts available on that edge (facts about values defined inside the inner loop cannot survive its header
                        # join, so they too belong to the last pass)
                        f3 = f2 + xf + [(f, dict(xenv)) for f in F.on_edge(eb, es) if f[0] != "in"]
                        if L is not None and es == L["header"]:
                            out.append(Path(f3, enter(eb, es, xenv, inner2), "back", eb, blocks + [b, s], inner2))
                        elif L is not None and es not in L["body"]:
                            rec_exit(eb, es, xenv, f3, blocks + [b, s], inner2, depth)
                        else:
                            rec(es, enter(eb, es, xenv, inner2), f3, blocks + [b, s], inner2, depth + 1)
                    continue
                if L is not None and s not in L["body"]:
                    rec_exit(b, s, env, f2, blocks + [b], inner, depth)
                    continue
                rec(s, enter(b, s, env, inner), f2, blocks + [b], inner, depth + 1)

        def rec_exit(b, s, env, facts, blocks, inner, depth):
            if not follow_exits:
                out.append(Path(facts, enter(b, s, env, inner), "exit", (b, s), blocks, inner))
                return
            # left the loop L: follow to the return(s) with L = None semantics (other loops collapsed)
            for p in self._after(s, enter(b, s, env, inner), facts, blocks, inner, (b, s)):
                out.append(p)

        rec(start, dict(env0 or {}), [], [], [], 0)
        return out

    def _exit_paths(self, il, env, enter):
        """ways out of inner loop il within one pass: list of (facts, env, from block, to block); header phis are symbolic in env"""
        fn = self.fn
        out = []
        deeper = {l["header"] for l in self.loops if l["header"] != il["header"] and l["body"] < il["body"]}

        def walk(b, env, facts, depth):
            if depth > 60 or len(out) > 200:
                return
            for s in fn.blocks[b].succs:
                bf = self.branch_facts(b, s, env)
                if bf is None:
                    continue
                f2 = facts + [(f, dict(env)) for f in bf if f[0] != "in"]
                if s == il["header"]:
                    continue                        # another pass: not an exit
                if s not in il["body"]:
                    out.append((f2, env, b, s))
                    continue
                if s in deeper:
                    # a loop nested deeper: no per-path facts beyond it, fall back to its exit edges with the must-facts only
                    for dl in self.loops:
                        if dl["header"] == s:
                            e2 = dict(env)
                            for i in fn.blocks[s].insts:
                                if i.op == "phi":
                                    e2[i.id] = ("v", i.id)
                            for (eb, es) in dl["exits"]:
                                if es in il["body"] and es != il["header"]:
                                    walk_from(es, enter(eb, es, e2, []), f2, depth + 1)
                                elif es not in il["body"]:
                                    out.append((f2, e2, eb, es))
                    continue
                walk(s, enter(b, s, env, []), f2, depth + 1)

        def walk_from(b, env, facts, depth):
            walk(b, env, facts, depth)

        walk(il["header"], dict(env), [], 0)
        return out

    def _after(self, s, env, facts, blocks, inner, exit_edge):
        res = []
        for p in self.paths(s, None, env):
            res.append(Path(facts + p.facts, p.env, "exit-" + p.end, (exit_edge, p.info), blocks + p.blocks, inner + p.inner))
        return res

    # ---- constraints of a path -------------------------------------------------------------------------------------------
    def constraints(self, path, cp, hi):
        """constraints the path's facts put on LEN = hi - cp (pointer operands, compared after resolution) and on bytes cp[j].
        returns (len_cons, byte_cons) with len_cons = [(pred, k)], byte_cons = {j: [(pred, k)]}"""
        cpb, cpo = cp
        hib, hio = hi
        lens, bytes_ = [], {}
        for f, env in path.facts:
            pred, a, b = f
            if not is_const(b) or const_val(b) is None:
                # LEN compared with another LEN-free value is not used
                continue
            k = const_val(b)
            la = self.lin(a, env)
            if la is not None and la[0]:
                co, c0 = la
                want = {}
                want[hib] = want.get(hib, 0) + 1
                want[cpb] = want.get(cpb, 0) - 1
                want = {x: v for x, v in want.items() if v != 0}
                if co == want:
                    # value = (hib + offsets) - (cpb + ...) + c0'  ->  LEN = value - (c0 - (hio - cpo))
                    shift = c0 - (hio - cpo)
                    kk = k
                    if kk >= (1 << 31):
                        kk -= (1 << 32)
                    lens.append((pred, kk - shift))
                continue
            ba = self.byte_at(a, env)
            if ba is not None and ba[0] == cpb:
                kk = k & 0xFF if pred in ("eq", "ne") else k
                bytes_.setdefault(ba[1] - cpo, []).append((pred, kk))
        return lens, bytes_

    @staticmethod
    def possible(cons, val):
        for pred, k in cons:
            ok = {"eq": val == k, "ne": val != k, "ugt": val > k if k >= 0 else False, "uge": val >= k if k >= 0 else False,
                  "ult": val < k if k >= 0 else True, "ule": val <= k if k >= 0 else True,
                  "sgt": val > k, "sge": val >= k, "slt": val < k, "sle": val <= k}.get(pred, True)
            if not ok:
                return False
        return True

    def bad_component_possible(self, path, cp, hi, kinds):
        """can [cp, hi) be one of the bad components in `kinds` ('' '.' '..') under the path's facts? returns the witness or None"""
        lens, bytes_ = self.constraints(path, cp, hi)
        for comp in kinds:
            n = len(comp)
            if not self.possible(lens, n):
                continue
            if all(self.possible(bytes_.get(j, []), DOT) for j in range(n)):
                return comp, lens, bytes_
        return None

    def sep_fact(self, path, r):
        """True / False / None: the byte at r (pointer (base, off)) is / is not / is not known to be a separator on this path"""
        res = None
        for f, env in path.facts:
            pred, a, b = f
            if not is_const(b) or const_val(b) is None or pred not in ("eq", "ne"):
                continue
            ba = self.byte_at(a, env)
            if ba is not None and ba == r and (const_val(b) & 0xFF) == SEP:
                res = (pred == "eq")
        return res

    def nul_fact(self, path, r):
        res = None
        for f, env in path.facts:
            pred, a, b = f
            if not is_const(b) or const_val(b) is None or pred not in ("eq", "ne"):
                continue
            ba = self.byte_at(a, env)
            if ba is not None and ba == r and (const_val(b) & 0xFF) == 0:
                res = (pred == "eq")
        return res

    # ---- recognising the scanner -------------------------------------------------------------------------------------------
    def find_scan_loop(self):
        """outermost loops with a read cursor: a pointer header phi that receives itself + 1 on every back edge of every iteration path.
        returns list of (loop, R phi, other pointer header phis)"""
        fn = self.fn
        found = []
        for L in sorted(self.loops, key=lambda l: -len(l["body"])):
            if any(L["body"] < o[0]["body"] for o in found):
                continue
            hdr = fn.blocks[L["header"]]
            pphis = [i for i in hdr.insts if i.op == "phi" and i.ty.endswith("*")]
            if not pphis:
                continue
            env0 = {p.id: ("v", p.id) for p in hdr.insts if p.op == "phi"}
            ps = self.paths(L["header"], L, env0)
            backs = [p for p in ps if p.end == "back"]
            if not backs or any(p.end == "overflow" for p in ps):
                continue
            for R in pphis:
                if all(self.ptr(p.env.get(R.id, ("v", R.id)), {}) == (("v", R.id), 1) for p in backs):
                    found.append((L, R, [q for q in pphis if q.id != R.id], ps, env0))
                    break
        return found


def _store_sites(fn, blocks):
    return [i for b in blocks for i in fn.blocks[b].insts if i.op == "store"]


def check_filter(fn, F=None):
    """conformance of an in-place component filter (collapse_path).  Returns (ok, report lines, stats); every problem is a line
    (where, text)."""
    S = Scanner(fn, F)
    F = S.F
    problems = []
    loops = S.find_scan_loop()
    if len(loops) != 1:
        return False, [("%s:%s" % (fn.file, fn.line), "not recognised as a component filter: %d loops with a read cursor that advances by one per iteration" % len(loops))], {}
    L, R, others, ps, env0 = loops[0]
    hdr = fn.blocks[L["header"]]
    where = "%s:%s" % (fn.file, hdr.term.line())
    # the write cursor: the pointer phi through which the byte at R is stored
    W = None
    copy_store = None
    for st in _store_sites(fn, L["body"]):
        ab = S.ptr(st.ops[1], {})
        vb = S.byte_at(st.ops[0], {})
        for q in others:
            if ab == (("v", q.id), 0) and vb == (("v", R.id), 0):
                W, copy_store = q, st
    cps = [q for q in others if W is not None and q.id != W.id]
    if W is None or len(cps) != 1:
        return False, [(where, "not recognised as a component filter: no write cursor receiving the byte at the read cursor, or not exactly one component-start pointer (%d)" % len(cps))], {}
    CP = cps[0]
    # base of the string: what all three cursors start from
    pre = [b for b in hdr.preds if b not in L["body"]]
    inits = set()
    for q in (R, W, CP):
        for v, pb in q.incoming:
            if pb in pre:
                inits.add(S.resolve(v, {}))
    if len(inits) != 1:
        return False, [(where, "the cursors do not start at the same position (%d different initial values)" % len(inits))], {}
    base = inits.pop()
    # base = the string, or the string + 1 under the fact that it starts with a separator (one optional leading '/')
    bsrc = F.sources(base, through_casts=False) if F is not None else S.F.sources(base, through_casts=False)
    par = ("v", fn.params[0].id)
    for s_, fs in bsrc:
        pb_, po_ = S.ptr(s_, {})
        if (pb_, po_) == (par, 0):
            continue
        ok1 = (pb_, po_) == (par, 1) and any(f[0] == "eq" and is_const(f[2]) and (const_val(f[2]) & 0xFF) == SEP and S.byte_at(f[1], {}) == (par, 0) for f in fs)
        if not ok1:
            problems.append((where, "the scan starts at %s+%d, which is not the string or the position after one leading '/'" % (pb_, po_)))
    # every store into the string: the copy at W inside the loop, the terminator at W after it
    allowed = {copy_store.id}
    stats = {"paths": 0, "copy": 0, "accept": 0, "drop": 0, "pop": 0, "exit": 0}
    for st in [i for i in fn.insts() if i.op == "store"]:
        if st.id == copy_store.id:
            continue
        ab = S.ptr(st.ops[1], {})
        if st.block.id not in L["body"] and ab == (("v", W.id), 0) and is_const(st.ops[0]) and const_val(st.ops[0]) == 0:
            allowed.add(st.id)
            continue
        problems.append((st.where(), "a store other than the copy at the write cursor and the terminator after the loop"))
    # the copy store is executed on every iteration before anything is decided (its block dominates every other body block but the header)
    for p in ps:
        if p.end != "back":
            continue
        if copy_store.block.id not in p.blocks:
            problems.append((where, "an iteration path does not copy the byte (blocks %s)" % p.blocks))
    Rp, Wp, CPp = (("v", R.id), 0), (("v", W.id), 0), (("v", CP.id), 0)
    for p in ps:
        stats["paths"] += 1
        if p.end == "overflow":
            problems.append((where, "too many paths through one iteration"))
            continue
        if p.end.startswith("exit-"):
            stats["exit"] += 1
            (eb, es), _ = p.info
            if eb != L["header"] or S.nul_fact(p, Rp) is not True:
                problems.append((where, "the loop is left (bb%d->bb%d) other than at the terminating NUL under the read cursor" % (eb, es)))
            else:
                # the terminator goes to W on this path
                if not any(i.id in allowed and i.id != copy_store.id for b in p.blocks for i in fn.blocks[b].insts if i.op == "store"):
                    problems.append((where, "no terminator is stored at the write cursor after the loop"))
            continue
        if p.end != "back":
            problems.append((where, "an iteration path ends in %s" % p.end))
            continue
        w2 = S.ptr(p.env.get(W.id), {})
        c2 = S.ptr(p.env.get(CP.id), {})
        baseb = S.ptr(base, {})
        if any(f[0] == "eq" and not is_const(f[2]) and {S.ptr(f[1], env), S.ptr(f[2], env)} == {CPp, baseb} for f, env in p.facts):
            # on this path the component start is the start of the string: the two names denote one position
            w2 = CPp if w2 == baseb else w2
            c2 = CPp if c2 == baseb else c2
        sep = S.sep_fact(p, Rp)
        desc = "path %s" % "-".join(str(b) for b in p.blocks)
        if w2 == (Wp[0], 1) and c2 == CPp:
            if sep is False:
                stats["copy"] += 1
                continue
            problems.append((where, "%s: a byte not known to differ from '/' is kept without closing the component (the next component would start in the middle of this one)" % desc))
            continue
        if sep is not True:
            problems.append((where, "%s: cursors change (W' = %s+%d, CP' = %s+%d) on a byte not known to be '/'" % (desc, w2[0], w2[1], c2[0], c2[1])))
            continue
        if w2 == CPp and c2 == CPp:
            stats["drop"] += 1
            continue
        if w2 == (Wp[0], 1) and c2 == (Wp[0], 1):
            bad = S.bad_component_possible(p, CPp, Wp, ("", ".", ".."))
            if bad is None:
                stats["accept"] += 1
            else:
                problems.append((where, "%s: the component [start, write) is kept although it can be %r here (length constraints %s, byte constraints %s)" % (
                    desc, bad[0], bad[1], {k: v for k, v in bad[2].items() if k in (0, 1)})))
            continue
        if w2 == c2:
            # pop: to the base (only when there is nothing before this component), or to the end of a walk back
            if w2 == (base, 0) or (S.ptr(base, {}) == w2):
                if any(f[0] == "eq" and {S.ptr(f[1], env), S.ptr(f[2], env)} == {CPp, S.ptr(base, {})} for f, env in p.facts if not is_const(f[2])):
                    stats["pop"] += 1
                else:
                    problems.append((where, "%s: the write cursor is reset to the start of the string although components may precede this one" % desc))
                continue
            ok, why = _walk_back_ok(S, p, w2, CPp, base)
            if ok:
                stats["pop"] += 1
            else:
                problems.append((where, "%s: after '..' the cursors land at %s+%d, %s" % (desc, w2[0], w2[1], why)))
            continue
        problems.append((where, "%s: after a '/' the cursors are left at W' = %s+%d, CP' = %s+%d, which is none of accept / drop / pop" % (desc, w2[0], w2[1], c2[0], c2[1])))
    if stats["accept"] < 1 or stats["drop"] < 1 or stats["copy"] < 1:
        problems.append((where, "the filter has no %s path" % ", ".join(k for k in ("copy", "accept", "drop") if stats[k] < 1)))
    return not problems, problems, stats


def _walk_back_ok(S, p, x, CPp, base):
    """x = (phi of an inner loop crossed on p, 0): that loop starts at CP - 1 (reached only with CP != base), moves by -1 only while
    the cursor is above base, and every exit edge taken means cursor <= base or cursor[-1] == '/'"""
    fn = S.fn
    xb, xo = x
    if xo != 0 or xb[0] != "v":
        return False, "which is not a cursor value"
    d = fn.defn(xb)
    hit = [(il, init) for il, init in p.inner if d is not None and not d.is_param and d.op == "phi" and d.id in init]
    if not hit:
        return False, "which is not the result of a walk back from the component start"
    il, init = hit[0]
    start = init[d.id]
    sb = S.ptr(start, {}) if start is not None else None
    if sb not in ((CPp[0], -1), (CPp[0], 0)):
        return False, "a walk that does not start at the component start or at the separator before it"
    baseb = S.ptr(base, {})
    if sb == (CPp[0], -1) and not any(f[0] == "ne" and not is_const(f[2]) and {S.ptr(f[1], env), S.ptr(f[2], env)} == {CPp, baseb} for f, env in p.facts):
        return False, "a walk back from start - 1 although this may be the first component (start == base not excluded): it would begin below the string"
    # inside the inner loop: every back edge decrements by one under cursor > base
    env0 = {i.id: ("v", i.id) for i in fn.blocks[il["header"]].insts if i.op == "phi"}
    ips = S.paths(il["header"], il, env0)
    xp = (("v", d.id), 0)
    for q in ips:
        if q.end == "back":
            nx = S.ptr(q.env.get(d.id), {})
            if nx != (xp[0], -1):
                return False, "a walk whose step is not -1"
            if not any(f[0] in ("ugt",) and S.ptr(f[1], env) == xp and S.ptr(f[2], env) == baseb for f, env in q.facts if not is_const(f[2])):
                return False, "a walk that can step below the start of the string"
        elif q.end.startswith("exit-") or q.end == "ret":
            pass
    # the exit edge taken on p: cursor <= base, or cursor[-1] == '/'
    good = False
    for f, env in p.facts:
        if not is_const(f[2]) and f[0] in ("ule", "eq") and S.ptr(f[1], env) == xp and S.ptr(f[2], env) == baseb:
            good = True
        if is_const(f[2]) and f[0] == "eq" and (const_val(f[2]) & 0xFF) == SEP and S.byte_at(f[1], env) == (xp[0], -1):
            good = True
    if not good:
        return False, "and the walk can stop at a position that is neither the start of the string nor just after a '/'"
    return True, None


def check_detector(fn, F=None, target_field=None):
    """conformance of a scanner that must report (non-zero) every string that starts with '/' or has a '..' component
    (is_dangerous_symlink).  Returns (ok, problems, stats)."""
    S = Scanner(fn, F)
    problems = []
    loops = S.find_scan_loop()
    if len(loops) != 1:
        return False, [("%s:%s" % (fn.file, fn.line), "not recognised as a component scanner: %d loops with a read cursor that advances by one per iteration" % len(loops))], {}
    L, R, others, ps, env0 = loops[0]
    hdr = fn.blocks[L["header"]]
    where = "%s:%s" % (fn.file, hdr.term.line())
    if len(others) != 1:
        return False, [(where, "not recognised: expected the read cursor and one component-start pointer, found %d other pointer phis" % len(others))], {}
    CP = others[0]
    Rp, CPp = (("v", R.id), 0), (("v", CP.id), 0)
    stats = {"paths": 0, "copy": 0, "accept": 0, "report": 0, "end-clean": 0, "pre": 0}
    # before the loop: both cursors start at the string; a zero return before the loop needs string == NULL; entering the loop needs string[0] != '/'
    pre = S.paths(0, None, {}, stop_at=L["header"])
    starts = set()
    bases = {S.ptr(p.env.get(R.id), {})[0] for p in pre if p.end == "stop"}
    for p in pre:
        stats["pre"] += 1
        if p.end == "stop":
            r0, c0 = S.ptr(p.env.get(R.id), {}), S.ptr(p.env.get(CP.id), {})
            starts.add((r0, c0))
            if r0 != c0 or r0[1] != 0:
                problems.append((where, "the cursors do not both start at the beginning of the string"))
                continue
            if not any(f[0] == "ne" and is_const(f[2]) and (const_val(f[2]) & 0xFF) == SEP and S.byte_at(f[1], env) == r0 for f, env in p.facts):
                problems.append((where, "the scan is entered without the fact that the string does not start with '/'"))
        elif p.end == "ret":
            v = p.info
            if v is not None and is_const(v) and const_val(v) == 0:
                # only for a missing string: the very pointer the scan would start from is NULL on this path
                if not any(f[0] == "eq" and is_const(f[2]) and const_val(f[2]) == 0 and S.ptr(f[1], env)[1] == 0 and S.ptr(f[1], env)[0] in bases for f, env in p.facts):
                    problems.append((where, "'not dangerous' is returned before the scan for a string that is present"))
            elif v is None or not is_const(v):
                problems.append((where, "a return before the scan whose value is not a constant"))
    if len(starts) != 1:
        problems.append((where, "the scan is entered with %d different cursor positions" % len(starts)))
    for p in ps:
        stats["paths"] += 1
        desc = "path %s" % "-".join(str(b) for b in p.blocks)
        if p.end == "overflow":
            problems.append((where, "too many paths through one iteration"))
            continue
        if p.end == "back":
            c2 = S.ptr(p.env.get(CP.id), {})
            sep = S.sep_fact(p, Rp)
            if c2 == CPp:
                if sep is False:
                    stats["copy"] += 1
                else:
                    problems.append((where, "%s: a byte not known to differ from '/' does not close the component" % desc))
                continue
            if sep is not True:
                problems.append((where, "%s: the component start moves on a byte not known to be '/'" % desc))
                continue
            if c2 == (Rp[0], 1):
                bad = S.bad_component_possible(p, CPp, Rp, ("..",))
                if bad is None:
                    stats["accept"] += 1
                else:
                    problems.append((where, "%s: the scan moves past a component that can be '..' here (length constraints %s, byte constraints %s)" % (desc, bad[1], bad[2])))
                continue
            problems.append((where, "%s: after a '/' the component start is %s+%d, not the byte after the separator" % (desc, c2[0], c2[1])))
            continue
        if p.end == "exit-ret":
            (eb, es), v = p.info
            if v is not None and not is_const(v):
                # the verdict is the truth of a test (`return is_dotdot(...)`): non-zero when it holds (a report), zero when it does not -
                # the zero case is judged with the facts of the test being false added to the path
                c_, neg_ = S._resolve_bool(v, p.env)
                if is_const(c_) and const_val(c_) is not None:
                    v = ("ci", int(bool(const_val(c_)) != neg_), 32)
                else:
                    dc_ = S.fn.defn(c_)
                    if dc_ is not None and not dc_.is_param and (dc_.op == "icmp" or dc_.ty == "i1"):
                        stats["report"] += 1
                        extra = [(f_, dict(p.env)) for f_ in S.F.cond_facts(c_, neg_) if f_[0] != "in"]      # value zero <=> test false (xor neg)
                        p = Path(p.facts + extra, p.env, p.end, (p.info[0], ("ci", 0, 32)), p.blocks, p.inner)
                        v = ("ci", 0, 32)
            zero = v is not None and is_const(v) and const_val(v) == 0
            if not zero:
                if v is not None and is_const(v):
                    stats["report"] += 1
                    continue
                problems.append((where, "%s: returns a value that is not a constant" % desc))
                continue
            # 'not dangerous': only at the end of the string and with the last component shown not to be '..'
            if eb != L["header"] or S.nul_fact(p, Rp) is not True:
                problems.append((where, "%s: 'not dangerous' is returned from inside the scan (bb%d->bb%d), before the end of the string" % (desc, eb, es)))
                continue
            bad = S.bad_component_possible(p, CPp, Rp, ("..",))
            if bad is None:
                stats["end-clean"] += 1
            else:
                problems.append((where, "%s: 'not dangerous' is returned at the end of the string although the last component can be '..' (length constraints %s, byte constraints %s)" % (
                    desc, bad[1], bad[2])))
            continue
        problems.append((where, "%s: ends in %s" % (desc, p.end)))
    if stats["accept"] < 1 or stats["copy"] < 1 or stats["end-clean"] < 1 or stats["report"] < 1:
        problems.append((where, "the scanner has no %s path" % ", ".join(k for k in ("copy", "accept", "report", "end-clean") if stats[k] < 1)))
    return not problems, problems, stats


def check_glob(fn, F=None):
    """conformance of a recursive wildcard matcher (match_glob) with the glob transducer over (pattern cursor G, string cursor S):
         star      G[0] == '*': the rest of the pattern is tried at the SAME string position, match(G + 1, S); non-zero -> report a match,
                   zero -> G' = G, S' = S + 1
         one       G[0] != '*' and (G[0] == '?' or G[0] == S[0], compared as stored bytes): G' = G + 1, S' = S + 1
         mismatch  otherwise: no match
       and at the end of the string: trailing '*'s are passed over and the verdict is G[0] == NUL.  Returns (ok, problems, stats)."""
    S_ = Scanner(fn, F)
    problems = []
    loops = S_.find_scan_loop()
    main = [l for l in loops if len(l[2]) == 1]
    if not main:
        return False, [("%s:%s" % (fn.file, fn.line), "not recognised as a glob matcher: no loop over the string with one pattern cursor")], {}
    L, R, others, ps, env0 = main[0]
    G = others[0]
    hdr = fn.blocks[L["header"]]
    where = "%s:%s" % (fn.file, hdr.term.line())
    Sp, Gp = (("v", R.id), 0), (("v", G.id), 0)
    STAR, QM = 42, 63
    stats = {"paths": 0, "star-advance": 0, "star-match": 0, "one": 0, "mismatch": 0, "end": 0}

    def byte_consts(path, at):
        """constants the byte at `at` is known (True) / known not (False) to equal on this path"""
        eq, ne = set(), set()
        for f, env in path.facts:
            if f[0] in ("eq", "ne") and is_const(f[2]) and const_val(f[2]) is not None and S_.byte_at(f[1], env) == at:
                (eq if f[0] == "eq" else ne).add(const_val(f[2]) & 0xFF)
        return eq, ne

    def same_byte(path):
        """True / False / None: G[0] == S[0] established / refuted / unknown (a comparison of the two loaded bytes themselves)"""
        res = None
        for f, env in path.facts:
            if f[0] in ("eq", "ne") and not is_const(f[2]):
                a, b = S_.byte_at(f[1], env), S_.byte_at(f[2], env)
                if {a, b} == {Sp, Gp} and a != b:
                    # both operands must be the plain widened bytes (no case folding or masking in between)
                    res = (f[0] == "eq")
        return res

    def rec_call(path):
        """(call instruction, truth of its result on this path) for a recursive call match(G + 1, S)"""
        out = []
        for f, env in path.facts:
            d = fn.defn(S_.resolve(f[1], env)) if not is_const(f[1]) else None
            if d is not None and not d.is_param and d.op == "call" and d.callee == fn.name and is_const(f[2]) and const_val(f[2]) == 0 and f[0] in ("eq", "ne"):
                out.append((d, f[0] == "ne", env))
        return out

    # further integer parameters are matching modes (an option the caller passes down unchanged): what the matcher does under a non-zero
    # mode is outside the property (which speaks of the default, exact matching); such paths are counted, not judged
    modes = [q for q in fn.params[2:] if not q.ty.endswith("*")]
    stats["mode-paths"] = 0

    def under_mode(path):
        for f, env in path.facts:
            if f[0] == "ne" and is_const(f[2]) and const_val(f[2]) == 0:
                x = S_.resolve(f[1], env)
                d = fn.defn(x)
                while d is not None and not d.is_param and d.op in ("zext", "sext", "trunc"):
                    d = fn.defn(d.ops[0])
                if d is not None and d.is_param and any(d.id == q.id for q in modes):
                    return True
        return False

    for p in ps:
        stats["paths"] += 1
        desc = "path %s" % "-".join(str(b) for b in p.blocks)
        if p.end == "overflow":
            problems.append((where, "too many paths through one iteration"))
            continue
        if modes and under_mode(p):
            stats["mode-paths"] += 1
            continue
        geq, gne = byte_consts(p, Gp)
        calls = rec_call(p)
        if p.end == "back":
            g2 = S_.ptr(p.env.get(G.id), {})
            if g2 == Gp:
                # star-advance: only under '*' and after the rest of the pattern failed at this very position
                okc = [c for c, truth, env in calls if not truth and S_.ptr(c.ops[0], env) == (Gp[0], 1) and S_.ptr(c.ops[1], env) == Sp]
                if STAR in geq and okc:
                    stats["star-advance"] += 1
                else:
                    problems.append((where, "%s: the string advances with the pattern standing still, but not (pattern byte '*' and the rest of the pattern tried and failed at this position)" % desc))
            elif g2 == (Gp[0], 1):
                sb = same_byte(p)
                if STAR not in geq and (STAR in gne) and (QM in geq or sb is True):
                    stats["one"] += 1
                else:
                    problems.append((where, "%s: pattern and string both advance without the facts (pattern byte is not '*') and (it is '?' or equals the string byte)" % desc))
            else:
                problems.append((where, "%s: the pattern cursor moves to %s+%d" % (desc, g2[0], g2[1])))
            continue
        if p.end == "exit-ret":
            (eb, es), v = p.info
            at_end = eb == L["header"] and S_.nul_fact(p, Sp) is True
            if at_end:
                stats["end"] += 1
                continue                # decided below on the trailing part
            if v is None or not is_const(v):
                problems.append((where, "%s: a verdict inside the loop that is not a constant" % desc))
                continue
            if const_val(v) != 0:
                okc = [c for c, truth, env in calls if truth and S_.ptr(c.ops[0], env) == (Gp[0], 1) and S_.ptr(c.ops[1], env) == Sp]
                if STAR in geq and okc:
                    stats["star-match"] += 1
                else:
                    problems.append((where, "%s: a match is reported inside the loop without (pattern byte '*' and the rest of the pattern matching at this position)" % desc))
            else:
                sb = same_byte(p)
                if STAR in gne and QM in gne and sb is False:
                    stats["mismatch"] += 1
                else:
                    problems.append((where, "%s: 'no match' is reported although the pattern byte may be '*', '?' or equal to the string byte" % desc))
            continue
        problems.append((where, "%s: ends in %s" % (desc, p.end)))
    # the recursive calls: exactly match(G + 1, S)
    for c in [i for i in fn.insts() if i.op == "call" and i.callee == fn.name]:
        a0, a1 = S_.ptr(c.ops[0], {}), S_.ptr(c.ops[1], {})
        for k, q in enumerate(fn.params[2:], 2):
            if k < len(c.ops) and S_.resolve(c.ops[k], {}) != ("v", q.id):
                problems.append((c.where(), "the recursive call does not pass parameter %d on unchanged" % k))
        if not (a0 == (Gp[0], 1) and a1 == Sp):
            problems.append((c.where(), "the recursive call is match(%s+%d, %s+%d), not match(pattern + 1, string) at the same string position" % (a0[0], a0[1], a1[0], a1[1])))
    # after the string: a loop that steps the pattern over '*'s only, then verdict = (pattern byte == NUL)
    tails = [l for l in S_.loops if l["header"] not in L["body"]]
    okt = False
    for tl in tails:
        th = fn.blocks[tl["header"]]
        for q in [i for i in th.insts if i.op == "phi" and i.ty.endswith("*")]:
            env1 = {i.id: ("v", i.id) for i in th.insts if i.op == "phi"}
            tps = S_.paths(tl["header"], tl, env1)
            good = bool(tps)
            for tp in tps:
                qp = (("v", q.id), 0)
                eq, ne = byte_consts(tp, qp)
                if tp.end == "back":
                    good = good and S_.ptr(tp.env.get(q.id), {}) == (qp[0], 1) and STAR in eq
                elif tp.end == "exit-ret":
                    v = tp.info[1]
                    d = fn.defn(S_.resolve(v, tp.env)) if v is not None and not is_const(v) else None
                    while d is not None and not d.is_param and d.op in ("zext", "sext"):
                        d = fn.defn(d.ops[0])
                    good = good and STAR in ne and d is not None and not d.is_param and d.op == "icmp" and d.pred == "eq" and \
                        S_.byte_at(d.ops[0], tp.env) == qp and is_const(d.ops[1]) and const_val(d.ops[1]) == 0
                else:
                    good = False
            # it starts from the pattern cursor of the main loop
            ins = [v for v, b in q.incoming if b not in tl["body"]]
            good = good and ins and all(S_.ptr(v, {}) == Gp for v in ins)
            okt = okt or good
    if not okt:
        # the same with strspn: verdict = ((G + strspn(G, "*"))[0] == NUL) on every end-of-string path
        ends = [p for p in ps if p.end == "exit-ret" and p.info[0][0] == L["header"] and S_.nul_fact(p, Sp) is True]
        okt = bool(ends)
        for p in ends:
            v = p.info[1]
            d = fn.defn(S_.resolve(v, p.env)) if v is not None and not is_const(v) else None
            while d is not None and not d.is_param and d.op in ("zext", "sext"):
                d = fn.defn(d.ops[0])
            good = False
            if d is not None and not d.is_param and d.op == "icmp" and d.pred == "eq" and is_const(d.ops[1]) and const_val(d.ops[1]) == 0:
                ld = fn.defn(S_.resolve(d.ops[0], p.env))
                while ld is not None and not ld.is_param and ld.op in ("zext", "sext"):
                    ld = fn.defn(ld.ops[0])
                if ld is not None and not ld.is_param and ld.op == "load":
                    g = fn.defn(S_.resolve(ld.ops[0], p.env))
                    if g is not None and not g.is_param and g.op == "getelementptr" and len(g.steps or []) == 1 and "idx" in g.steps[0]:
                        sp_ = fn.defn(S_.resolve(g.steps[0]["idx"], p.env))
                        if S_.ptr(g.ops[0], p.env) == Gp and sp_ is not None and not sp_.is_param and sp_.op == "call" and fn.mod.callee_cname(sp_) == "strspn" \
                                and S_.ptr(sp_.ops[0], p.env) == Gp and fn.mod.const_string(S_.M.strip(sp_.ops[1], ("bitcast",))) == b"*":
                            good = True
            okt = okt and good
    if not okt:
        problems.append((where, "after the end of the string: no loop that passes over trailing '*'s only and then answers (pattern byte == NUL)"))
    for k in ("star-advance", "star-match", "one", "mismatch", "end"):
        if stats[k] < 1:
            problems.append((where, "the matcher has no %s path" % k))
    return not problems, problems, stats


def check_option_word(fn, F, flag_struct, flag_field, letter):
    """the option-word parser examines every character: per iteration the cursor advances by one; by two only when the skipped byte is known
    to be a digit (a level that belongs to the letter before it); or leaves the word behind altogether under the fact that the current byte
    is 'w' (the rest is a directory name).  And a byte equal to `letter` sets flag_struct.flag_field to 1 on that very path."""
    S_ = Scanner(fn, F)
    M = S_.M
    problems = []
    par = ("v", fn.params[0].id)
    cand = None
    for L in sorted(S_.loops, key=lambda l: -len(l["body"])):
        hdr = fn.blocks[L["header"]]
        for ph in [i for i in hdr.insts if i.op == "phi" and i.ty.endswith("*")]:
            ins = [v for v, b in ph.incoming if b not in L["body"]]
            if ins and all(S_.ptr(v, {}) == (par, 0) for v in ins):
                cand = (L, ph)
        if cand:
            break
    if cand is None:
        return False, [("%s:%s" % (fn.file, fn.line), "not recognised: no loop walking the option word from its first character")], {}
    L, R = cand
    hdr = fn.blocks[L["header"]]
    where = "%s:%s" % (fn.file, hdr.term.line())
    env0 = {i.id: ("v", i.id) for i in hdr.insts if i.op == "phi"}
    ps = S_.paths(L["header"], L, env0)
    Rp = (("v", R.id), 0)
    stats = {"paths": 0, "step1": 0, "step2-digit": 0, "rest": 0, "letter": 0}

    def byte_cons(path, at):
        lo, hi, eq = None, None, set()
        for f, env in path.facts:
            if not is_const(f[2]) or const_val(f[2]) is None or S_.byte_at(f[1], env) != at:
                continue
            k = const_val(f[2]) & 0xFF if f[0] in ("eq", "ne") else const_val(f[2])
            if f[0] == "eq":
                eq.add(k)
            elif f[0] in ("sge", "uge"):
                lo = k if lo is None else max(lo, k)
            elif f[0] in ("sgt", "ugt"):
                lo = k + 1 if lo is None else max(lo, k + 1)
            elif f[0] in ("sle", "ule"):
                hi = k if hi is None else min(hi, k)
            elif f[0] in ("slt", "ult"):
                hi = k - 1 if hi is None else min(hi, k - 1)
        return lo, hi, eq

    for p in ps:
        stats["paths"] += 1
        if p.end == "overflow":
            problems.append((where, "too many paths through one iteration"))
            continue
        lo0, hi0, eq0 = byte_cons(p, Rp)
        if ord(letter) in eq0:
            stats["letter"] += 1
            sts = [i for b in p.blocks for i in fn.blocks[b].insts if i.op == "store" and M.match(("field", flag_struct, flag_field, ANY_), i.ops[1], {}) is not None
                   and is_const(i.ops[0]) and const_val(i.ops[0]) == 1]
            if not sts:
                problems.append((where, "path %s: the character '%s' does not set %s.%s" % ("-".join(map(str, p.blocks)), letter, flag_struct, flag_field)))
        if p.end != "back":
            continue
        e2 = dict(p.env)
        e2.update(env0)                         # the header phis stand for the values at the start of the iteration
        desc = "-".join(map(str, p.blocks))

        def excluded(path, at):
            lo, hi, eq = byte_cons(path, at)
            L_ = ord(letter)
            return (bool(eq) and L_ not in eq) or (lo is not None and lo > L_) or (hi is not None and hi < L_)

        def skipped_ok(path, base, frm, to):
            """bytes base+frm .. base+to are all known not to be the letter"""
            return all(excluded(path, (base, k)) for k in range(frm, to + 1))

        r2 = S_.ptr(p.env.get(R.id), e2)
        # cursors of inner loops crossed on this path: each starts at an examined position and each of its own steps passes known bytes only
        base, off = r2
        hops = 0
        bad = None
        while base != Rp[0] and hops < 4:
            hops += 1
            hit = None
            for il, init in p.inner:
                if base[0] == "v" and base[1] in init:
                    hit = (il, init)
            if hit is None:
                break
            il, init = hit
            if off < 1 or not skipped_ok(p, base, 1, off - 1):
                bad = "after the inner scan the cursor passes a character that is not known to differ from '%s'" % letter
                break
            ienv0 = {i.id: ("v", i.id) for i in fn.blocks[il["header"]].insts if i.op == "phi"}
            for q in S_.paths(il["header"], il, ienv0, follow_exits=False):
                if q.end == "overflow":
                    bad = "too many paths through the inner scan"
                if q.end != "back":
                    continue
                qe = dict(q.env)
                qe.update(ienv0)
                nb, no = S_.ptr(q.env.get(base[1]), qe)
                if nb != base or no < 0 or not skipped_ok(q, base, 1, no):
                    bad = "the inner scan at line %s passes a character that is not known to differ from '%s'" % (fn.blocks[il["header"]].term.line(), letter)
            if bad:
                break
            ib, io = S_.ptr(init[base[1]], e2)
            if io < 0 or not skipped_ok(p, ib, 1, io):
                bad = "the inner scan starts past a character that is not known to differ from '%s'" % letter
                break
            # the position the inner cursor started from stands for it: everything between is accounted for
            base, off = ib, 1 if ib == Rp[0] else 1
            stats["inner-scan"] = stats.get("inner-scan", 0) + 1
        if bad:
            problems.append((where, "path %s: %s (an 'n' there is lost: the run is no longer a dry run)" % (desc, bad)))
            continue
        r2 = (base, off)
        if r2 == (Rp[0], 1):
            stats["step1"] += 1
        elif r2[0] == Rp[0] and r2[1] >= 2:
            if skipped_ok(p, Rp[0], 1, r2[1] - 1):
                stats["step2-digit"] += 1
            else:
                problems.append((where, "path %s: the cursor skips a character that is not known to differ from '%s' (an option letter there is lost: for 'n' the run is no longer a dry run)" %
                                 (desc, letter)))
        elif 119 in eq0:
            stats["rest"] += 1          # w / w=DIR: the remainder of the word is the directory
        else:
            problems.append((where, "path %s: the cursor moves to %s+%d without the current character being 'w'" % (desc, r2[0], r2[1])))
    if stats["letter"] < 1:
        problems.append((where, "no path tests for the character '%s'" % letter))
    if stats["step1"] < 1:
        problems.append((where, "no path advances the cursor by one"))
    return not problems, problems, stats


