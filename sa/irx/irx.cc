// irx: serialise an LLVM 14 module (typed pointers) to JSON for the Python
// rule engines in /verif/sa/lhsa.  Pure exporter: no rule logic lives here.
//
//   irx <in.bc|in.ll> <out.json>
//
#include "llvm/IR/Module.h"
#include "llvm/IR/Function.h"
#include "llvm/IR/Instructions.h"
#include "llvm/IR/IntrinsicInst.h"
#include "llvm/IR/Constants.h"
#include "llvm/IR/DebugInfo.h"
#include "llvm/IR/DebugInfoMetadata.h"
#include "llvm/IR/DataLayout.h"
#include "llvm/IR/LLVMContext.h"
#include "llvm/IR/Operator.h"
#include "llvm/IR/InlineAsm.h"
#include "llvm/IRReader/IRReader.h"
#include "llvm/Support/SourceMgr.h"
#include "llvm/Support/JSON.h"
#include "llvm/Support/raw_ostream.h"
#include "llvm/Support/FileSystem.h"
#include "llvm/Support/MemoryBuffer.h"
#include "llvm/Bitcode/BitcodeWriter.h"
#include "llvm/ADT/SmallVector.h"
#include <map>
#include <set>
#include <string>
#include <vector>

using namespace llvm;

static const DataLayout *DL;
static std::map<Type *, std::string> TyNames;
static std::vector<Type *> TyOrder;
static std::map<std::string, DICompositeType *> Composites; // by C name
static std::map<const Value *, unsigned> VId;               // per function
static std::map<const BasicBlock *, unsigned> BId;

static std::string tyStr(Type *T) {
  auto it = TyNames.find(T);
  if (it != TyNames.end())
    return it->second;
  std::string s;
  raw_string_ostream os(s);
  if (auto *ST = dyn_cast<StructType>(T)) {
    if (ST->hasName())
      os << "%" << ST->getName();
    else
      T->print(os);
  } else if (auto *PT = dyn_cast<PointerType>(T)) {
    os << tyStr(PT->getPointerElementType()) << "*";
  } else if (auto *AT = dyn_cast<ArrayType>(T)) {
    os << "[" << AT->getNumElements() << " x " << tyStr(AT->getElementType()) << "]";
  } else {
    T->print(os);
  }
  os.flush();
  TyNames[T] = s;
  TyOrder.push_back(T);
  // make sure component types are registered as well
  if (auto *ST = dyn_cast<StructType>(T)) {
    if (!ST->isOpaque())
      for (Type *E : ST->elements())
        tyStr(E);
  } else if (auto *PT = dyn_cast<PointerType>(T)) {
    tyStr(PT->getPointerElementType());
  } else if (auto *AT = dyn_cast<ArrayType>(T)) {
    tyStr(AT->getElementType());
  } else if (auto *FT = dyn_cast<FunctionType>(T)) {
    tyStr(FT->getReturnType());
    for (Type *P : FT->params())
      tyStr(P);
  }
  return s;
}

static std::string stripSuffix(StringRef n) {
  // "struct._LHAReader.12" -> "struct._LHAReader"
  size_t dot = n.rfind('.');
  if (dot != StringRef::npos && dot + 1 < n.size()) {
    bool digits = true;
    for (size_t i = dot + 1; i < n.size(); ++i)
      if (!isdigit((unsigned char)n[i]))
        digits = false;
    if (digits)
      return stripSuffix(n.substr(0, dot));
  }
  return n.str();
}

static DICompositeType *findComposite(StructType *ST) {
  if (!ST->hasName())
    return nullptr;
  std::string n = stripSuffix(ST->getName());
  size_t dot = n.find('.');
  if (dot == std::string::npos)
    return nullptr;
  std::string cname = n.substr(dot + 1);
  auto it = Composites.find(cname);
  return it == Composites.end() ? nullptr : it->second;
}

static void emitType(json::OStream &J, Type *T) {
  J.attributeBegin(tyStr(T));
  J.objectBegin();
  if (T->isSized())
    J.attribute("size", (int64_t)DL->getTypeAllocSize(T).getFixedSize());
  if (auto *IT = dyn_cast<IntegerType>(T)) {
    J.attribute("k", "int");
    J.attribute("bits", (int64_t)IT->getBitWidth());
  } else if (auto *PT = dyn_cast<PointerType>(T)) {
    J.attribute("k", "ptr");
    J.attribute("to", tyStr(PT->getPointerElementType()));
  } else if (auto *AT = dyn_cast<ArrayType>(T)) {
    J.attribute("k", "arr");
    J.attribute("n", (int64_t)AT->getNumElements());
    J.attribute("el", tyStr(AT->getElementType()));
  } else if (auto *ST = dyn_cast<StructType>(T)) {
    J.attribute("k", "struct");
    if (ST->hasName())
      J.attribute("name", stripSuffix(ST->getName()));
    J.attribute("opaque", ST->isOpaque());
    if (!ST->isOpaque()) {
      const StructLayout *SL = DL->getStructLayout(ST);
      DICompositeType *CT = findComposite(ST);
      std::map<uint64_t, std::string> memberAt;
      if (CT)
        for (auto *E : CT->getElements())
          if (auto *M = dyn_cast<DIDerivedType>(E))
            if (M->getTag() == dwarf::DW_TAG_member)
              memberAt[M->getOffsetInBits()] = M->getName().str();
      J.attributeBegin("fields");
      J.arrayBegin();
      for (unsigned i = 0; i < ST->getNumElements(); ++i) {
        J.objectBegin();
        uint64_t off = SL->getElementOffset(i);
        J.attribute("ty", tyStr(ST->getElementType(i)));
        J.attribute("off", (int64_t)off);
        J.attribute("size", (int64_t)DL->getTypeAllocSize(ST->getElementType(i)).getFixedSize());
        auto it = memberAt.find(off * 8);
        if (it != memberAt.end())
          J.attribute("name", it->second);
        J.objectEnd();
      }
      J.arrayEnd();
      J.attributeEnd();
    }
  } else if (auto *FT = dyn_cast<FunctionType>(T)) {
    J.attribute("k", "fn");
    J.attribute("ret", tyStr(FT->getReturnType()));
    J.attribute("vararg", FT->isVarArg());
    J.attributeBegin("params");
    J.arrayBegin();
    for (Type *P : FT->params())
      J.value(tyStr(P));
    J.arrayEnd();
    J.attributeEnd();
  } else if (T->isVoidTy()) {
    J.attribute("k", "void");
  } else if (T->isFloatingPointTy()) {
    J.attribute("k", "fp");
  } else {
    J.attribute("k", "other");
  }
  J.objectEnd();
  J.attributeEnd();
}

static void emitValue(json::OStream &J, const Value *V);

static void emitGepSteps(json::OStream &J, const GEPOperator *G) {
  J.attribute("src_ty", tyStr(G->getSourceElementType()));
  J.attribute("inbounds", G->isInBounds());
  J.attributeBegin("steps");
  J.arrayBegin();
  Type *Cur = G->getSourceElementType();
  bool first = true;
  for (auto it = G->idx_begin(); it != G->idx_end(); ++it) {
    const Value *Idx = *it;
    J.objectBegin();
    if (first) {
      J.attribute("k", "ptr");
      J.attribute("el", tyStr(Cur));
      J.attribute("el_size", (int64_t)DL->getTypeAllocSize(Cur).getFixedSize());
      J.attributeBegin("idx");
      emitValue(J, Idx);
      J.attributeEnd();
      first = false;
    } else if (auto *ST = dyn_cast<StructType>(Cur)) {
      unsigned fi = cast<ConstantInt>(Idx)->getZExtValue();
      J.attribute("k", "field");
      J.attribute("struct", tyStr(ST));
      J.attribute("field", (int64_t)fi);
      J.attribute("off", (int64_t)DL->getStructLayout(ST)->getElementOffset(fi));
      Cur = ST->getElementType(fi);
    } else if (auto *AT = dyn_cast<ArrayType>(Cur)) {
      J.attribute("k", "arr");
      J.attribute("arr", tyStr(AT));
      J.attribute("n", (int64_t)AT->getNumElements());
      Cur = AT->getElementType();
      J.attribute("el_size", (int64_t)DL->getTypeAllocSize(Cur).getFixedSize());
      J.attributeBegin("idx");
      emitValue(J, Idx);
      J.attributeEnd();
    } else {
      J.attribute("k", "other");
    }
    J.objectEnd();
  }
  J.arrayEnd();
  J.attributeEnd();
}

static void emitValue(json::OStream &J, const Value *V) {
  J.objectBegin();
  if (auto *CI = dyn_cast<ConstantInt>(V)) {
    J.attribute("k", "ci");
    J.attribute("bits", (int64_t)CI->getBitWidth());
    if (CI->getBitWidth() <= 64)
      J.attribute("v", (int64_t)CI->getSExtValue());
    else
      J.attribute("vs", toString(CI->getValue(), 10, true));
  } else if (isa<ConstantPointerNull>(V)) {
    J.attribute("k", "null");
    J.attribute("ty", tyStr(V->getType()));
  } else if (isa<UndefValue>(V)) {
    J.attribute("k", "undef");
    J.attribute("ty", tyStr(V->getType()));
  } else if (auto *F = dyn_cast<Function>(V)) {
    J.attribute("k", "fn");
    J.attribute("name", F->getName());
  } else if (auto *GV = dyn_cast<GlobalVariable>(V)) {
    J.attribute("k", "gv");
    J.attribute("name", GV->getName());
  } else if (auto *GA = dyn_cast<GlobalAlias>(V)) {
    J.attribute("k", "gv");
    J.attribute("name", GA->getName());
  } else if (auto *CE = dyn_cast<ConstantExpr>(V)) {
    J.attribute("k", "ce");
    J.attribute("op", CE->getOpcodeName());
    J.attribute("ty", tyStr(CE->getType()));
    if (auto *G = dyn_cast<GEPOperator>(CE))
      emitGepSteps(J, G);
    if (CE->isCompare())
      J.attribute("pred", CmpInst::getPredicateName((CmpInst::Predicate)CE->getPredicate()));
    J.attributeBegin("ops");
    J.arrayBegin();
    for (const Use &U : CE->operands())
      emitValue(J, U.get());
    J.arrayEnd();
    J.attributeEnd();
  } else if (auto *CF = dyn_cast<ConstantFP>(V)) {
    J.attribute("k", "cf");
    J.attribute("ty", tyStr(CF->getType()));
    if (CF->getType()->isFloatTy() || CF->getType()->isDoubleTy())
      J.attribute("v", CF->getValueAPF().convertToDouble());
  } else if (auto *CDS = dyn_cast<ConstantDataSequential>(V)) {
    J.attribute("k", "data");
    J.attribute("ty", tyStr(CDS->getType()));
    J.attribute("ety", tyStr(CDS->getElementType()));
    J.attributeBegin("elts");
    J.arrayBegin();
    for (unsigned i = 0; i < CDS->getNumElements(); ++i) {
      if (CDS->getElementType()->isIntegerTy())
        J.value((int64_t)CDS->getElementAsInteger(i));
      else
        J.value(CDS->getElementAsDouble(i));
    }
    J.arrayEnd();
    J.attributeEnd();
  } else if (isa<ConstantAggregateZero>(V)) {
    J.attribute("k", "zero");
    J.attribute("ty", tyStr(V->getType()));
  } else if (auto *CA = dyn_cast<ConstantAggregate>(V)) {
    J.attribute("k", "agg");
    J.attribute("ty", tyStr(CA->getType()));
    J.attributeBegin("elems");
    J.arrayBegin();
    for (const Use &U : CA->operands())
      emitValue(J, U.get());
    J.arrayEnd();
    J.attributeEnd();
  } else if (auto *BB = dyn_cast<BasicBlock>(V)) {
    J.attribute("k", "bb");
    J.attribute("id", (int64_t)BId[BB]);
  } else if (isa<MetadataAsValue>(V)) {
    J.attribute("k", "md");
  } else if (isa<InlineAsm>(V)) {
    J.attribute("k", "asm");
  } else if (isa<Argument>(V) || isa<Instruction>(V)) {
    J.attribute("k", "v");
    J.attribute("id", (int64_t)VId[V]);
  } else {
    J.attribute("k", "unknown");
  }
  J.objectEnd();
}

static void emitLoc(json::OStream &J, const DebugLoc &L) {
  if (!L)
    return;
  J.attributeBegin("loc");
  J.arrayBegin();
  const DILocation *D = L.get();
  while (D) {
    J.objectBegin();
    J.attribute("l", (int64_t)D->getLine());
    J.attribute("f", D->getFilename());
    if (auto *SP = D->getScope()->getSubprogram())
      J.attribute("fn", SP->getName());
    J.objectEnd();
    D = D->getInlinedAt();
  }
  J.arrayEnd();
  J.attributeEnd();
}

static void emitFunction(json::OStream &J, const Function &F) {
  VId.clear();
  BId.clear();
  unsigned n = 0, b = 0;
  for (const Argument &A : F.args())
    VId[&A] = n++;
  for (const BasicBlock &BB : F) {
    BId[&BB] = b++;
    for (const Instruction &I : BB)
      VId[&I] = n++;
  }
  J.objectBegin();
  J.attribute("name", F.getName());
  J.attribute("decl", F.isDeclaration());
  J.attribute("internal", F.hasLocalLinkage());
  J.attribute("fty", tyStr(F.getFunctionType()));
  J.attribute("ret", tyStr(F.getReturnType()));
  J.attribute("vararg", F.isVarArg());
  if (auto *SP = F.getSubprogram()) {
    J.attribute("file", SP->getFilename());
    J.attribute("line", (int64_t)SP->getLine());
    J.attribute("cname", SP->getName());
  }
  J.attributeBegin("params");
  J.arrayBegin();
  for (const Argument &A : F.args()) {
    J.objectBegin();
    J.attribute("id", (int64_t)VId[&A]);
    J.attribute("ty", tyStr(A.getType()));
    J.attribute("name", A.getName());
    J.objectEnd();
  }
  J.arrayEnd();
  J.attributeEnd();

  // variable names from dbg intrinsics
  std::map<unsigned, std::string> names;
  for (const BasicBlock &BB : F)
    for (const Instruction &I : BB)
      if (auto *DI = dyn_cast<DbgVariableIntrinsic>(&I)) {
        const Value *Loc = DI->getVariableLocationOp(0);
        if (Loc && (isa<Instruction>(Loc) || isa<Argument>(Loc)) && VId.count(Loc)) {
          // keep the outermost (non-inlined) name if several
          unsigned id = VId[Loc];
          if (!names.count(id))
            names[id] = DI->getVariable()->getName().str();
        }
      }
  J.attributeBegin("names");
  J.objectBegin();
  for (auto &kv : names)
    J.attribute(std::to_string(kv.first), kv.second);
  J.objectEnd();
  J.attributeEnd();

  J.attributeBegin("blocks");
  J.arrayBegin();
  for (const BasicBlock &BB : F) {
    J.objectBegin();
    J.attribute("id", (int64_t)BId[&BB]);
    J.attribute("name", BB.getName());
    J.attributeBegin("insts");
    J.arrayBegin();
    for (const Instruction &I : BB) {
      if (isa<DbgInfoIntrinsic>(&I))
        continue;
      if (auto *II = dyn_cast<IntrinsicInst>(&I)) {
        Intrinsic::ID id = II->getIntrinsicID();
        if (id == Intrinsic::lifetime_start || id == Intrinsic::lifetime_end)
          continue;
      }
      J.objectBegin();
      J.attribute("id", (int64_t)VId[&I]);
      J.attribute("op", I.getOpcodeName());
      J.attribute("ty", tyStr(I.getType()));
      if (auto *C = dyn_cast<CmpInst>(&I))
        J.attribute("pred", CmpInst::getPredicateName(C->getPredicate()));
      if (auto *OB = dyn_cast<OverflowingBinaryOperator>(&I)) {
        if (OB->hasNoSignedWrap())
          J.attribute("nsw", true);
        if (OB->hasNoUnsignedWrap())
          J.attribute("nuw", true);
      }
      if (auto *AI = dyn_cast<AllocaInst>(&I)) {
        J.attribute("alloc_ty", tyStr(AI->getAllocatedType()));
        if (!AI->isArrayAllocation())
          J.attribute("alloc_size", (int64_t)DL->getTypeAllocSize(AI->getAllocatedType()).getFixedSize());
      }
      if (auto *LI = dyn_cast<LoadInst>(&I)) {
        J.attribute("size", (int64_t)DL->getTypeStoreSize(LI->getType()).getFixedSize());
        J.attribute("volatile", LI->isVolatile());
      }
      if (auto *SI = dyn_cast<StoreInst>(&I)) {
        J.attribute("size", (int64_t)DL->getTypeStoreSize(SI->getValueOperand()->getType()).getFixedSize());
        J.attribute("vty", tyStr(SI->getValueOperand()->getType()));
      }
      if (auto *G = dyn_cast<GetElementPtrInst>(&I))
        emitGepSteps(J, cast<GEPOperator>(G));
      if (auto *CB = dyn_cast<CallBase>(&I)) {
        const Value *Callee = CB->getCalledOperand()->stripPointerCasts();
        if (auto *CF = dyn_cast<Function>(Callee))
          J.attribute("callee", CF->getName());
        J.attribute("fty", tyStr(CB->getFunctionType()));
        J.attributeBegin("calleev");
        emitValue(J, CB->getCalledOperand());
        J.attributeEnd();
        J.attributeBegin("ops");
        J.arrayBegin();
        for (const Use &U : CB->args())
          emitValue(J, U.get());
        J.arrayEnd();
        J.attributeEnd();
      } else if (auto *PN = dyn_cast<PHINode>(&I)) {
        J.attributeBegin("incoming");
        J.arrayBegin();
        for (unsigned i = 0; i < PN->getNumIncomingValues(); ++i) {
          J.arrayBegin();
          emitValue(J, PN->getIncomingValue(i));
          J.value((int64_t)BId[PN->getIncomingBlock(i)]);
          J.arrayEnd();
        }
        J.arrayEnd();
        J.attributeEnd();
      } else if (auto *BI = dyn_cast<BranchInst>(&I)) {
        J.attributeBegin("ops");
        J.arrayBegin();
        if (BI->isConditional())
          emitValue(J, BI->getCondition());
        J.arrayEnd();
        J.attributeEnd();
        J.attributeBegin("succs");
        J.arrayBegin();
        for (unsigned i = 0; i < BI->getNumSuccessors(); ++i)
          J.value((int64_t)BId[BI->getSuccessor(i)]);
        J.arrayEnd();
        J.attributeEnd();
      } else if (auto *SW = dyn_cast<SwitchInst>(&I)) {
        J.attributeBegin("ops");
        J.arrayBegin();
        emitValue(J, SW->getCondition());
        J.arrayEnd();
        J.attributeEnd();
        J.attribute("default", (int64_t)BId[SW->getDefaultDest()]);
        J.attributeBegin("cases");
        J.arrayBegin();
        for (auto &C : SW->cases()) {
          J.arrayBegin();
          J.value((int64_t)C.getCaseValue()->getSExtValue());
          J.value((int64_t)BId[C.getCaseSuccessor()]);
          J.arrayEnd();
        }
        J.arrayEnd();
        J.attributeEnd();
      } else {
        J.attributeBegin("ops");
        J.arrayBegin();
        for (const Use &U : I.operands())
          emitValue(J, U.get());
        J.arrayEnd();
        J.attributeEnd();
      }
      emitLoc(J, I.getDebugLoc());
      J.objectEnd();
    }
    J.arrayEnd();
    J.attributeEnd();
    J.objectEnd();
  }
  J.arrayEnd();
  J.attributeEnd();
  J.objectEnd();
}

// irx --mark <anchors.txt> <in.bc> <out.bc>
// Inlining policy for the *normalised* plain view: every function named in anchors.txt (one C name per line; a ".N" suffix added by
// the linker for same-named statics is ignored), every function with external linkage, every address-taken function and every
// function on a call-graph cycle keeps its identity (noinline); every other private function is marked alwaysinline, so that
// after `opt -passes=always-inline,globaldce` helper functions that no rule names have disappeared into their callers.
static int markMain(int argc, char **argv) {
  if (argc != 5) { errs() << "usage: irx --mark <anchors.txt> <in.bc> <out.bc>\n"; return 2; }
  std::set<std::string> anchors;
  {
    auto BufOrErr = MemoryBuffer::getFile(argv[2]);
    if (!BufOrErr) { errs() << "cannot read " << argv[2] << "\n"; return 2; }
    StringRef Txt = (*BufOrErr)->getBuffer();
    SmallVector<StringRef, 256> Lines;
    Txt.split(Lines, '\n', -1, false);
    for (StringRef L : Lines) anchors.insert(L.trim().str());
  }
  LLVMContext Ctx;
  SMDiagnostic Err;
  std::unique_ptr<Module> M = parseIRFile(argv[3], Err, Ctx);
  if (!M) { Err.print("irx", errs()); return 2; }
  // direct call graph for cycle detection
  std::map<Function *, std::set<Function *>> callees;
  std::set<Function *> addrTaken;
  for (Function &F : *M) {
    if (F.isDeclaration()) continue;
    if (F.hasAddressTaken()) addrTaken.insert(&F);
    for (BasicBlock &BB : F)
      for (Instruction &I : BB)
        if (auto *CB = dyn_cast<CallBase>(&I))
          if (Function *C = CB->getCalledFunction())
            if (!C->isDeclaration()) callees[&F].insert(C);
  }
  auto reaches = [&](Function *From, Function *To) {
    std::set<Function *> seen; std::vector<Function *> work(callees[From].begin(), callees[From].end());
    while (!work.empty()) { Function *X = work.back(); work.pop_back(); if (X == To) return true; if (!seen.insert(X).second) continue;
      for (Function *Y : callees[X]) work.push_back(Y); }
    return false;
  };
  unsigned kept = 0, inl = 0;
  for (Function &F : *M) {
    if (F.isDeclaration()) continue;
    std::string base = F.getName().str();
    size_t dot = base.find('.');
    if (dot != std::string::npos) base = base.substr(0, dot);
    bool keep = !F.hasLocalLinkage() || anchors.count(base) || addrTaken.count(&F) || reaches(&F, &F);
    F.removeFnAttr(Attribute::OptimizeNone);
    if (keep) { F.removeFnAttr(Attribute::AlwaysInline); F.addFnAttr(Attribute::NoInline); ++kept; }
    else { F.removeFnAttr(Attribute::NoInline); F.addFnAttr(Attribute::AlwaysInline); ++inl; }
  }
  std::error_code EC;
  raw_fd_ostream OS(argv[4], EC, sys::fs::OF_None);
  if (EC) { errs() << "cannot open " << argv[4] << "\n"; return 2; }
  WriteBitcodeToFile(*M, OS);
  outs() << "kept " << kept << " inlined " << inl << "\n";
  return 0;
}

int main(int argc, char **argv) {
  if (argc >= 2 && std::string(argv[1]) == "--mark") return markMain(argc, argv);
  if (argc != 3) {
    errs() << "usage: irx <in.bc|in.ll> <out.json>\n";
    return 2;
  }
  LLVMContext Ctx;
  SMDiagnostic Err;
  std::unique_ptr<Module> M = parseIRFile(argv[1], Err, Ctx);
  if (!M) {
    Err.print("irx", errs());
    return 2;
  }
  DL = &M->getDataLayout();

  DebugInfoFinder DIF;
  DIF.processModule(*M);
  std::map<std::string, DICompositeType *> typedefs;
  for (DIType *T : DIF.types()) {
    if (auto *CT = dyn_cast<DICompositeType>(T)) {
      if ((CT->getTag() == dwarf::DW_TAG_structure_type || CT->getTag() == dwarf::DW_TAG_union_type) &&
          !CT->isForwardDecl() && !CT->getName().empty())
        Composites[CT->getName().str()] = CT;
    }
  }
  for (DIType *T : DIF.types()) {
    if (auto *DT = dyn_cast<DIDerivedType>(T))
      if (DT->getTag() == dwarf::DW_TAG_typedef)
        if (auto *CT = dyn_cast_or_null<DICompositeType>(DT->getBaseType()))
          if (!CT->isForwardDecl() && !Composites.count(DT->getName().str()))
            Composites[DT->getName().str()] = CT;
  }

  std::error_code EC;
  raw_fd_ostream OS(argv[2], EC, sys::fs::OF_None);
  if (EC) {
    errs() << "cannot open " << argv[2] << "\n";
    return 2;
  }
  json::OStream J(OS);
  J.objectBegin();
  J.attribute("source", argv[1]);

  // enumerators
  J.attributeBegin("enums");
  J.objectBegin();
  {
    std::set<std::string> seen;
    for (DIType *T : DIF.types())
      if (auto *CT = dyn_cast<DICompositeType>(T))
        if (CT->getTag() == dwarf::DW_TAG_enumeration_type)
          for (auto *E : CT->getElements())
            if (auto *En = dyn_cast<DIEnumerator>(E))
              if (seen.insert(En->getName().str()).second)
                J.attribute(En->getName(), (int64_t)En->getValue().getSExtValue());
  }
  J.objectEnd();
  J.attributeEnd();

  // enumerators grouped by enumeration type, in declaration order (for recognising renamed enumerators)
  J.attributeBegin("enum_types");
  J.arrayBegin();
  {
    std::set<const DICompositeType *> seenT;
    for (DIType *T : DIF.types())
      if (auto *CT = dyn_cast<DICompositeType>(T))
        if (CT->getTag() == dwarf::DW_TAG_enumeration_type && seenT.insert(CT).second) {
          J.objectBegin();
          J.attribute("name", CT->getName());
          J.attribute("file", CT->getFile() ? CT->getFile()->getFilename() : "");
          J.attributeBegin("elems");
          J.arrayBegin();
          for (auto *E : CT->getElements())
            if (auto *En = dyn_cast<DIEnumerator>(E)) {
              J.arrayBegin();
              J.value(En->getName());
              J.value((int64_t)En->getValue().getSExtValue());
              J.arrayEnd();
            }
          J.arrayEnd();
          J.attributeEnd();
          J.objectEnd();
        }
  }
  J.arrayEnd();
  J.attributeEnd();

  J.attributeBegin("globals");
  J.arrayBegin();
  for (const GlobalVariable &GV : M->globals()) {
    J.objectBegin();
    J.attribute("name", GV.getName());
    J.attribute("ty", tyStr(GV.getValueType()));
    J.attribute("constant", GV.isConstant());
    J.attribute("internal", GV.hasLocalLinkage());
    J.attribute("decl", GV.isDeclaration());
    if (GV.getValueType()->isSized())
      J.attribute("size", (int64_t)DL->getTypeAllocSize(GV.getValueType()).getFixedSize());
    SmallVector<DIGlobalVariableExpression *, 1> GVEs;
    GV.getDebugInfo(GVEs);
    if (!GVEs.empty()) {
      auto *DGV = GVEs[0]->getVariable();
      J.attribute("cname", DGV->getName());
      J.attribute("file", DGV->getFilename());
      J.attribute("line", (int64_t)DGV->getLine());
      if (auto *SP = dyn_cast_or_null<DISubprogram>(DGV->getScope()))
        J.attribute("scope_fn", SP->getName());
      else if (auto *LB = dyn_cast_or_null<DILocalScope>(DGV->getScope()))
        if (auto *SP2 = LB->getSubprogram())
          J.attribute("scope_fn", SP2->getName());
    }
    if (GV.hasInitializer()) {
      J.attributeBegin("init");
      emitValue(J, GV.getInitializer());
      J.attributeEnd();
    }
    J.objectEnd();
  }
  J.arrayEnd();
  J.attributeEnd();

  J.attributeBegin("functions");
  J.arrayBegin();
  for (const Function &F : *M)
    emitFunction(J, F);
  J.arrayEnd();
  J.attributeEnd();

  // types last: every type mentioned above is registered by now
  J.attributeBegin("types");
  J.objectBegin();
  for (size_t i = 0; i < TyOrder.size(); ++i) // TyOrder may grow while emitting
    emitType(J, TyOrder[i]);
  J.objectEnd();
  J.attributeEnd();

  J.objectEnd();
  OS.flush();
  return 0;
}
