import sys
from lhsa.context import Context
unit, fname, pats = sys.argv[1], sys.argv[2], sys.argv[3:]
with Context() as ctx:
    mod = ctx.inlined(unit) if unit != "plain" else ctx.plain()
    hf = mod.fn(fname)
    for b in hf.blocks:
        L = b.insts + ([b.term] if b.term else [])
        if pats and not any(any(p in i.where() for p in pats) for i in L):
            continue
        print("BLOCK", b.id, "preds", b.preds, "succs", b.succs)
        for i in L:
            print("   ", i.id, i.op, getattr(i, 'pred', None) or '', i.ops if i.op != 'phi' else i.incoming, i.where()[:70])
