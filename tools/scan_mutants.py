#!/usr/bin/env python3
"""Hand-made mutants of collapse_path / is_dangerous_symlink against C11 R5 / C10 R7 (E9 SCAN): each is applied to a scratch copy of /repo,
compiled, and the check run on it; `expect` is 1 where the mutant breaks the property and 0 where it only over-approximates (property holds).
usage: tools/scan_mutants.py [name-prefix...]"""
import subprocess, sys, os, tempfile, shutil, re
MUTS = [
 ("lib/lha_file_header.c","m1 len>=2 (over-pop; C11 holds)", "} else if (currpath_len == 2\n			        && currpath[0]", "} else if (currpath_len >= 2\n			        && currpath[0]", "C11", 0),
 ("lib/lha_file_header.c","m2 '.' case dropped", "if (currpath_len == 0\n			 || (currpath_len == 1 && currpath[0] == '.')) {", "if (currpath_len == 0) {", "C11", 1),
 ("lib/lha_file_header.c","m3 c1 -> c0 (over-pop; C11 holds)", "currpath[0] == '.' && currpath[1] == '.') {\n\n				// Walk", "currpath[0] == '.' && currpath[0] == '.') {\n\n				// Walk", "C11", 0),
 ("lib/lha_file_header.c","m4 walk >= filename", "while (w > filename) {", "while (w >= filename) {", "C11", 1),
 ("lib/lha_file_header.c","m5 walk starts at currpath (drop instead of pop; C11 holds)", "w = currpath - 1;", "w = currpath;", "C11", 0),
 ("lib/lha_file_header.c","m6 currpath not updated after walk", "					currpath = w;\n				}", "				}", "C11", 1),
 ("lib/lha_file_header.c","m7 no first-component case", "if (currpath == filename) {\n					w = filename;\n				} else {", "if (0) {\n					w = filename;\n				} else {", "C11", 1),
 ("lib/lha_file_header.c","m9 terminator removed", "	*w = '\\0';\n}\n\nLHAFileHeader *lha_file_header_read", "}\n\nLHAFileHeader *lha_file_header_read", "C11", 1),
 ("lib/lha_file_header.c","m10 len==0 -> len==1 off by one", "if (currpath_len == 0\n", "if (currpath_len == 1\n", "C11", 1),
 ("lib/lha_file_header.c","m11 currpath_len without -1", "currpath_len = w - currpath - 1;", "currpath_len = w - currpath;", "C11", 1),
 ("lib/lha_file_header.c","m12 '.' test uses currpath[1]", "(currpath_len == 1 && currpath[0] == '.')", "(currpath_len == 1 && currpath[1] == '.')", "C11", 1),
 ("lib/lha_file_header.c","m13 accept only sets currpath when len>2 (else keeps)", "			} else {\n				currpath = w;\n			}", "			} else if (currpath_len > 2) {\n				currpath = w;\n			}", "C11", 1),
 ("lib/lha_file_header.c","m14 benign: tests reordered", "if (currpath_len == 0\n			 || (currpath_len == 1 && currpath[0] == '.')) {", "if ((currpath_len == 1 && currpath[0] == '.')\n			 || currpath_len == 0) {", "C11", 0),
 ("lib/lha_reader.c","d1 trailing check dropped", "	if ((p - path_start) == 2\n	 && path_start[0] == '.' && path_start[1] == '.') {\n		return 1;\n	}\n\n	return 0;", "	return 0;", "C10", 1),
 ("lib/lha_reader.c","d2 len>=2 (over-report; C10 holds)", "if ((p - path_start) == 2\n			 && path_start[0]", "if ((p - path_start) >= 2\n			 && path_start[0]", "C10", 0),
 ("lib/lha_reader.c","d3 path_start = p", "path_start = p + 1;", "path_start = p;", "C10", 1),
 ("lib/lha_reader.c","d4 absolute check dropped", "	if (header->symlink_target[0] == '/') {\n		return 1;\n	}", "", "C10", 1),
 ("lib/lha_reader.c","d5 second dot not checked in loop", "&& path_start[0] == '.' && path_start[1] == '.') {\n				return 1;", "&& path_start[0] == '.') {\n				return 1;", "C10", 0),
 ("lib/lha_reader.c","d6 len==3", "if ((p - path_start) == 2\n			 && path_start[0]", "if ((p - path_start) == 3\n			 && path_start[0]", "C10", 1),
 ("lib/lha_reader.c","d7 path_start only advanced when component is not dots", "			path_start = p + 1;\n", "			if (path_start[0] != '.') path_start = p + 1;\n", "C10", 1),
 # ---- C06 metadata wiring
 ("lib/lha_reader.c","w1 chown uid/gid swapped", "lha_arch_chown(path, header->unix_uid,\n		                    header->unix_gid)", "lha_arch_chown(path, header->unix_gid,\n		                    header->unix_uid)", "C06", 1),
 ("lib/lha_reader.c","w2 gid taken from uid at file creation", "unix_gid = reader->curr_file->unix_gid;", "unix_gid = reader->curr_file->unix_uid;", "C06", 1),
 ("lib/lha_arch_unix.c","w3 actime left zero", "times.actime = (time_t) timestamp;", "times.actime = 0;", "C06", 1),
 ("lib/lha_reader.c","w4 time set whatever the decode result", "	if (result) {\n		set_timestamps_from_header(filename, reader->curr_file);\n	}", "	set_timestamps_from_header(filename, reader->curr_file);", "C06", 1),
 ("lib/lha_reader.c","w5 chmod under the uid/gid flag", "	if (LHA_FILE_HAVE_EXTRA(header, LHA_FILE_UNIX_PERMS)) {\n		if (!lha_arch_chmod", "	if (LHA_FILE_HAVE_EXTRA(header, LHA_FILE_UNIX_UID_GID)) {\n		if (!lha_arch_chmod", "C06", 1),
 ("lib/lha_reader.c","w6 mkdir modes swapped", "		mode = 0700;\n	} else {\n		mode = 0777;", "		mode = 0777;\n	} else {\n		mode = 0700;", "C06", 1),
 ("lib/lha_arch_unix.c","w7 fchown arguments swapped", "fchown(fileno, unix_uid, unix_gid)", "fchown(fileno, unix_gid, unix_uid)", "C06", 1),
 ("lib/lha_reader.c","w8 perms at creation under the uid/gid flag", "	if (LHA_FILE_HAVE_EXTRA(reader->curr_file, LHA_FILE_UNIX_PERMS)) {\n		unix_perms", "	if (LHA_FILE_HAVE_EXTRA(reader->curr_file, LHA_FILE_UNIX_UID_GID)) {\n		unix_perms", "C06", 1),
 ("lib/lha_reader.c","w9 zero timestamp applied", "	if (header->timestamp != 0) {\n		return lha_arch_utime(path, header->timestamp);\n	} else {\n		return 1;\n	}", "	return lha_arch_utime(path, header->timestamp);", "C06", 1),
 ("lib/lha_arch_unix.c","w10 fchmod before fchown", "	if (unix_uid >= 0) {", "	if (unix_perms >= 0) { fchmod(fileno, unix_perms); }\n	if (unix_uid >= 0) {", "C06", 1),
 ("lib/lha_reader.c","w11 benign: flags tested through a local copy", "	if (LHA_FILE_HAVE_EXTRA(header, LHA_FILE_UNIX_UID_GID)) {\n		if (!lha_arch_chown", "	unsigned int fl_ = header->extra_flags;\n	if ((fl_ & LHA_FILE_UNIX_UID_GID) != 0) {\n		if (!lha_arch_chown", "C06", 0),
 # ---- C16 window discipline
 ("lib/lha_input_stream.c","x1 benign: i + 11 < len is exactly enough for the 12-byte marker", "for (i = 0; i + 12 < stream->leadin_len; ++i) {", "for (i = 0; i + 11 < stream->leadin_len; ++i) {", "C16", 0),
 ("lib/lha_input_stream.c","x1b scan continues while i + 10 < len (the 12-byte marker compare reads one stale byte)", "for (i = 0; i + 12 < stream->leadin_len; ++i) {", "for (i = 0; i + 10 < stream->leadin_len; ++i) {", "C16", 1),
 ("lib/lha_input_stream.c","x2 benign: i + 12 <= len is still enough for offsets up to 11", "for (i = 0; i + 12 < stream->leadin_len; ++i) {", "for (i = 0; i + 12 <= stream->leadin_len; ++i) {", "C16", 0),
 ("lib/lha_input_stream.c","x3 round end drops one byte more than tested", "		empty_leadin(stream, i);\n		filepos += i;", "		empty_leadin(stream, i + 1);\n		filepos += i;", "C16", 1),
 ("lib/lha_input_stream.c","x4 file position counts the buffer, not the tested bytes", "		filepos += i;", "		filepos += stream->leadin_len;", "C16", 1),
 ("lib/lha_input_stream.c","x5 match drops the header's first byte too", "					empty_leadin(stream, i);\n					return 1;", "					empty_leadin(stream, i + 1);\n					return 1;", "C16", 1),
 ("lib/lha_input_stream.c","x6 refill asks for the whole capacity", "		               LEADIN_BUFFER_LEN - stream->leadin_len);", "		               LEADIN_BUFFER_LEN);", "C16", 1),
 ("lib/lha_input_stream.c","x7 replay copies the whole buffer", "		if (buf_len < stream->leadin_len) {\n			n = buf_len;\n		} else {\n			n = stream->leadin_len;\n		}", "		n = stream->leadin_len;", "C16", 1),
 ("lib/lha_input_stream.c","x8 source read restarts at the start of buf", "		result = do_read(stream, (uint8_t *) buf + total_bytes,\n		                 buf_len - total_bytes);", "		result = do_read(stream, (uint8_t *) buf,\n		                 buf_len - total_bytes);", "C16", 1),
 ("lib/lha_input_stream.c","x9 read-based skip subtracts the request, not the delivery", "			bytes -= (unsigned int) result;", "			bytes -= len;", "C16", 1),
 ("lib/lha_input_stream.c","x10 seek from the start of the file", "fseek(handle, (long) bytes, SEEK_CUR)", "fseek(handle, (long) bytes, SEEK_SET)", "C16", 1),
 ("lib/lha_input_stream.c","x11 fallback tolerates a short fread", "		if (result != (int) len) {\n			return 0;\n		}\n\n		bytes -= len;", "		if (result <= 0) {\n			return 0;\n		}\n\n		bytes -= len;", "C16", 1),
 ("src/main.c","x12 any name starting with '-' is stdin", "if (!strcmp(filename, \"-\")) {", "if (filename[0] == '-') {", "C16", 1),
 # ---- C06 R8 glob
 ("src/filter.c","g1 star must consume one byte", "if (match_glob(glob + 1, str)) {", "if (match_glob(glob + 1, str + 1)) {", "C06", 1),
 ("src/filter.c","g2 '?' no longer a wildcard", "} else if (*glob == '?' || *glob == *str) {", "} else if (*glob == *str) {", "C06", 1),
 ("src/filter.c","g3 '?' also matches when bytes differ by case bit", "} else if (*glob == '?' || *glob == *str) {", "} else if (*glob == '?' || (*glob | 0x20) == (*str | 0x20)) {", "C06", 1),
 ("src/filter.c","g4 trailing stars not skipped", "	while (*glob == '*') {\n		++glob;\n	}\n", "", "C06", 1),
 ("src/filter.c","g5 end of string always matches", "	return *glob == '\\0';\n}", "	return 1;\n}", "C06", 1),
 ("src/filter.c","g6 benign: operands of || swapped", "} else if (*glob == '?' || *glob == *str) {", "} else if (*glob == *str || *glob == '?') {", "C06", 0),
 ("src/filter.c","g7 mismatch ignored (skips the string byte)", "		} else {\n			return 0;\n		}\n\n		++str;", "		}\n\n		++str;", "C06", 1),
]
only = sys.argv[1:]
bad = 0
for f, name, old, new, prop, expect in MUTS:
    if only and not any(name.startswith(o) for o in only): continue
    d = tempfile.mkdtemp(prefix="lhsa_mut_")
    try:
        subprocess.run(["rsync","-a","--exclude",".git","--exclude","*.o","--exclude","*.lo","--exclude",".libs","--exclude","test/","/repo/",d+"/t/"],check=True)
        src = open(d+"/t/"+f).read()
        if src.count(old) != 1:
            print("%-60s PATTERN %d" % (name, src.count(old))); bad += 1; continue
        open(d+"/t/"+f,"w").write(src.replace(old,new))
        # compile check
        cc = subprocess.run(["cc","-fsyntax-only","-DHAVE_CONFIG_H","-I.","-I..","-Ipublic","-I../lib/public","-I../lib",os.path.basename(f)],cwd=d+"/t/"+os.path.dirname(f),capture_output=True,text=True)
        if cc.returncode: print(name, "DOES NOT COMPILE", cc.stderr[:300]); bad += 1; continue
        r = subprocess.run(["/verif/check",prop],env=dict(os.environ,LHSA_REPO=d+"/t",LHSA_EVIDENCE=d+"/ev"),capture_output=True,text=True)
        v = re.findall(r"violated: rule=(\S+) instance=(.{0,150})", r.stdout)
        okk = (r.returncode == expect)
        if not okk: bad += 1
        print("%-62s rc=%d expect=%d %s %s" % (name, r.returncode, expect, "ok" if okk else "MISMATCH", (v[0][0]+": "+v[0][1]) if v else ""))
    finally:
        shutil.rmtree(d, ignore_errors=True)
print("mismatches:", bad)
