import os
#!/usr/bin/env python3
"""Regenerates MANIFEST.json from the table below (kept in one place so the
claimed / not-applicable lists cannot drift apart)."""
import json, os
HERE = os.path.dirname(os.path.dirname(os.path.abspath(__file__)))

CLAIMED = {
    # id: (level, level text, level note, technique, design ref)
    "C12": ("other",
            "Static path analysis over the SSA control-flow graphs of the header reader: every path to a successful header return "
            "crosses the level-0/1 checksum comparison, the common-CRC comparison, the per-level length rules, the level dispatch and "
            "the name/path presence rule, and a failed read sets the sticky end flag. Quantifies over all paths of the code, hence over "
            "all headers at once; the suite contains no header with a wrong checksum or CRC, so deleting either comparison is invisible "
            "to it but changes the control-flow graph and is reported. Decides the wiring of the checks, not the sufficiency of the numeric "
            "constants in the length rules.",
            "Trusted: clang 14 front end; LLVM sroa/early-cse preserve semantics; irx exporter; the Python fact/path engines; reference constants "
            "(flag 0x04, minimum lengths 22/25/26/32, 1 MiB) held by the checker as the format's specification.",
            "static analysis: available-facts must-dataflow + predicate-abstraction path states on LLVM IR (custom checker)", "DESIGN.md §3 C12, §2 E2"),
}

CLAIMED["C07"] = ("other",
    "Static path analysis of the verdict wiring, for all archives at once: do_decode returns non-zero only under 'decoded length == header length' "
    "and 'running CRC == header CRC' (both full width) after reading to exhaustion; the decoder's getters return its counters unmodified; "
    "lha_reader_check / lha_reader_extract forward exactly that verdict; the CLI status starts at 1, drops to 0 on any failing member, 'Tested'/'Melted' "
    "are printed only under success and main returns the negation of the status; plus the C14 identity rules (CRC and length are taken over exactly the "
    "bytes handed out). The suite never alters a recorded CRC or length, so replacing the final comparison passes it; here it changes the facts at the "
    "return and is reported. Does not decide that the decoders produce the right bytes (C01-C04); the CRC arithmetic is C17.",
    "Trusted: clang 14 front end; LLVM sroa/early-cse; irx; the Python fact engine. Burst detection for stored members follows from C17 (CRC-16/ARC generator, degree 16, non-zero constant term) and is argued in DESIGN, not machine-checked here.",
    "static analysis: available-facts must-dataflow, value-provenance (sources) and guarded-site rules on LLVM IR (custom checker)", "DESIGN.md §3 C07")
CLAIMED["C14"] = ("other",
    "Static provenance analysis of lib/lha_decoder.c: the count returned by lha_decoder_read, the increment of the stream position and the length handed to the CRC "
    "routine are the same SSA value and count exactly the bytes memcpy'd into the caller's buffer from offset 0; the request is clamped to declared length - position; "
    "each copy is min(buffered, remaining request); the cursor advances by the bytes copied and is reset only on refill; progress blocks rise by exactly one per callback and the callback check follows every "
    "position update; the two getters return the fields the read path maintains; in every decoder a result of the bit readers is used as data only behind a fact that excludes its failure value (208 uses). "
    "Decides the clauses 'reported length equals bytes returned', 'CRC is over exactly those bytes', 'never exceeds the declared length' structurally. "
    "Not decided: split-invariance as an equality over read histories.",
    "Trusted: clang 14 front end; LLVM sroa/early-cse; irx; the Python fact engine.",
    "static analysis: SSA value-identity and provenance rules + available facts on LLVM IR (custom checker)", "DESIGN.md §3 C14")

CLAIMED["C10"] = ("other",
    "Static call-graph, path and provenance analysis of the extraction code (claimed in part): no call path from the list/test/dry-run commands to any "
    "filesystem-mutating function and the mutating calls of extract/print lie behind dry_run == 0; libc mutators are confined to lib/lha_arch_unix.c and "
    "every other fopen is read-only; lha_arch_fopen unlinks then opens with O_CREAT|O_EXCL (no O_TRUNC) and wraps that descriptor, lha_arch_symlink unlinks first; "
    "a dangerous symlink of a normal entry becomes a placeholder, real creation of deferred links happens only after input and directory stack are exhausted, "
    "the deferred list stays in decreasing path-length order; the strings appended to the output path start at a byte != '/'; directory metadata is applied "
    "only to directories whose mkdir succeeded in this run (lha_arch_mkdir reports success only under mkdir(...) == 0), the option-word parser examines every character and sets dry_run for every 'n' "
    "(cursor steps by one, or past bytes the path's branch facts show to differ from 'n'), and the link-following setters (utime/chmod/chown), called from any unit, only receive a path the same call created; "
    "is_dangerous_symlink is decided against the component scanner (every path through one iteration of its loop either keeps the component open, or closes it under "
    "branch facts that exclude '..', or reports; 'harmless' only at the NUL of a target not starting with '/'). These are necessary conditions of the property, decided for all "
    "archives and option sets at once. One genuine defect is recorded as a known finding (R4d: a deferred link is created through directory components that may be links "
    "re-created before it; replayed on the unchanged tree). Not decided: how the kernel resolves paths, crash-point interleavings.",
    "Trusted: clang 14 front end; LLVM sroa/early-cse; irx; the Python engines; indirect calls resolved by (struct, field) tables with type-based fallback; the libc mutator deny-list; Linux O_* values.",
    "static analysis: whole-program call-graph reachability (who-may-call), available-facts dataflow, predicate path states and per-iteration path conformance of the string scanner (E9 SCAN) on LLVM IR (custom checker)", "DESIGN.md §3 C10, §2 E9, §8 #10")
CLAIMED["C15"] = ("other",
    "Static global-state and wiring analysis (claimed in part): every global and function-local static defined by lib/ is never the target of a store/copy and "
    "table struct types are never written through any pointer, lib/ calls no non-reentrant libc function - hence operations on one reader cannot affect another, "
    "interleaved or on different threads; lha_reader_next_file returns a header only if the state was not EOF and only it and the constructor write the state; the "
    "unread remainder of a member is skipped before the next header is read and the remaining-bytes counter decreases by exactly the compressed bytes handed out; the basic reader is advanced exactly under "
    "curr_file_type in {START, NORMAL} (a held-back member is never dropped), the end-of-directory test compares over exactly strlen(top->path) bytes of the top directory's own path and answers 'nothing to present' "
    "only with an empty stack or pending input; member-scoped fields are reset when the member changes. "
    "Not decided: the order in which directories and deferred symlinks are re-presented under the three policies (a property of call histories).",
    "Trusted: clang 14 front end; LLVM sroa/early-cse; irx; the Python engines; strict-typing assumption for the 'no store through struct type' rule; the non-reentrant libc deny-list.",
    "static analysis: global mutability classification (store/escape roots), who-may-write field rules, available-facts dataflow and cut sets on LLVM IR (custom checker)", "DESIGN.md §3 C15")

CLAIMED["C18"] = ("other",
    "Static taint analysis over the whole program (lib + src): sources are the header's path, filename, symlink_target, compress_method, unix_username and unix_group; "
    "taint propagates through SSA values, struct fields, local buffers, libc copy functions, calls/returns over the resolved call graph (also through the progress-callback "
    "data pointer); sinks are all stdio output calls. No header-derived value reaches a sink except through safe_printf/safe_fprintf, whose sanitising loop is evaluated "
    "abstractly over all 256 byte values (every visited byte ends in 0x20-0x7e, the loop stops only at NUL, the string printed is the string sanitised); format strings "
    "are printable literals. This found the method-field defect (fixed in repo commit 3344cc8). The suite only has a hostile file NAME; any other field printed raw is invisible to it.",
    "Trusted: clang 14 front end; LLVM sroa/early-cse; irx; the Python taint engine and its libc copy models; field-sensitive (not object-sensitive) treatment of struct objects; printf-family semantics for literal formats.",
    "static analysis: interprocedural source-to-sink taint analysis + byte-map loop evaluation over the 256-value domain on LLVM IR (custom checker)", "DESIGN.md §3 C18")

CLAIMED["C20"] = ("other",
    "Static ownership analysis of lib/ (claimed in part): every allocation result is NULL-checked before it is dereferenced; a typestate search over the CFG from every "
    "allocation site (with callee consumption summaries: always / only if the callee's result is non-NULL, and aliasing through local slots) shows the object is released, "
    "returned or handed to an owner on every path to every exit; owning pointer fields are inferred from the stores that put fresh allocations or add_ref'ed headers into them "
    "and each must be released by the owner's free function; an owning field is overwritten only after its old value was released, moved, tested NULL or aliased (named assumptions "
    "for the five sites that rely on 'still NULL', with close_decoder's postcondition as support rule); the conditionally owned current entry is released under each owning state before "
    "being overwritten and in lha_reader_free; add_ref is paired with a store into an owning list; the status of functions that fail on allocation failure is not dropped; "
    "after a release of the value held by an owning field the field is rewritten or its object released on every path (no dangling owner); a realloc result replaces the pointer it was computed from only "
    "under result != NULL; a hand-over that depends on the callee's result is not left untested at a return. "
    "This found three leaks and one dropped failure status, all repaired (repo commits 6cf2eaf, f7a84ba, 9ee6bc5, 15e8d10). Quantifies over all paths, hence all archives and call histories. "
    "Not decided: the fault-injection quantifier as such (each failure is noticed and returned; how every caller up the stack reacts is not followed).",
    "Trusted: clang 14 front end; LLVM sroa/early-cse; irx; the Python ownership engine; allocator/releaser vocabulary; named assumptions printed in the evidence (A-null-before:*, list-link).",
    "static analysis: allocation-site typestate search over the CFG, ownership inference from stores, cut-set reasoning per owning state on LLVM IR (custom checker)", "DESIGN.md §3 C20, §2 E6")

CLAIMED["C17"] = ("proof",
    "All obligations machine-discharged: the loop body of lha_crc16_buf is evaluated in a bit-level affine domain over GF(2) and its 24x16 matrix (16 state bits, 8 data bits -> 16 next-state bits) "
    "equals that of the bitwise CRC-16/ARC step with zero constant term, which covers all 2^24 (state, byte) pairs without evaluating any; the lookup table is verified affine in its index, equal to "
    "the table generated from 0xA001, never written and private to the routine; the routine is a left fold over buf[0..buf_len) from *crc to *crc with no other memory effect, so piecewise == whole; "
    "every caller starts its accumulator at 0 and uses the raw value; the decoder's running value is fed exactly the bytes it delivers (C14's identity rules run here too). Proof level is appropriate because the property is a finite linear-algebra identity plus a structural fold shape.",
    "Trusted base: clang 14 front end; LLVM sroa/early-cse; irx; sa/lhsa/gf2.py and props/c17.py; the CRC-16/ARC definition encoded as gf2.crc16_arc_step. A rewrite of the routine that is not a byte-wise straight-line loop is reported unproven (counts as violation).",
    "static analysis: abstract interpretation in a bit-level GF(2)-affine domain (matrix equality against the reference step) + SSA fold-shape rules (custom checker)", "DESIGN.md §3 C17, §2 E4")
CLAIMED["C05"] = ("other",
    "Static recovery of the header field-extraction tables from the IR (which header field is filled from which width at which offset, as linear forms over path length and data length) for the "
    "level 0/1/2/3 decoders, the ten extended-header decoders, the level-0 Unix/OS-9 areas and the chain walker, compared with the reference tables of the LHA header format held by the checker; "
    "the five endian decoders, the OS-9 permission mapping and the DOS date/time bit-fields are proven bit-exact by GF(2) bit-level evaluation; the extended-header registry is compared entry by "
    "entry (types, decoders, min_len, reads within min_len) and the dispatcher is evaluated in the singleton domain for all 256 type bytes (which decoder receives the data, only with data_len >= "
    "min_len); the all-caps folding of DOS-like names is shown to run only after both strings were scanned clean (flag-correlated path states on the inlined header unit). Claimed in part: decides "
    "the field wiring for all headers at once - the suite's sizes stay below 2^24, its dates below 2044 and it has no 0x52/0x53 headers. Not decided: separator normalisation values (C11), "
    "mktime's arithmetic, position of member data.",
    "Trusted: clang 14 front end; LLVM sroa/early-cse; irx; gf2.py, lin.py and props/c05.py; the reference tables (DESIGN Appendix B) as the specification of the format.",
    "static analysis: effect-signature recovery (stores to struct fields with linear offset forms) compared with reference tables + GF(2) bit-level evaluation on LLVM IR (custom checker)", "DESIGN.md §3 C05, Appendix B")

CLAIMED["C11"] = ("other",
    "Static provenance and byte-map analysis (claimed in part): every value stored to the file-name field is NULL, a buffer whose sanitising loop - evaluated abstractly over all 256 byte values - "
    "leaves no '/', the tail after the last '/', or is handed to split_header_filename on every successful path; only the listed normalisers write name/path bytes; the separator loops visit every "
    "byte and the path header always ends in a separator; every header returned with a non-NULL path passed through collapse_path(header->path) and nothing that can write the path field or path bytes "
    "runs afterwards; headers are created only in lha_file_header_read; and collapse_path itself is checked against the component transducer (E9 SCAN): every path through one iteration of its "
    "loop is a copy, accept, drop or pop move on (component start, write cursor), an accept only under branch facts that exclude the empty, '.' and '..' component, a pop only to the start of the string or "
    "to a position just after a '/', nothing but the copied byte and the final NUL is stored - which gives, for every input string, the invariant that only real names precede each '/'. "
    "Not decided: a sanitiser rewritten over indices or with another algorithm is reported as not recognised, not analysed.",
    "Trusted: clang 14 front end; LLVM sroa/early-cse; irx; bytemap.py and the fact engine; strrchr/strdup semantics; assumption A-tolower (tolower cannot introduce '/').",
    "static analysis: value-provenance rules, byte-map loop evaluation over the 256-value domain, cut-set (sanitiser-last) and call-graph mod-set rules, per-iteration path conformance of the in-place filter with the component transducer (E9 SCAN) on LLVM IR (custom checker)", "DESIGN.md §3 C11, §2 E9")

CLAIMED["C13"] = ("other",
    "Static termination classification of every natural loop of lib/ and src/ (claimed in part): counted induction with an invariant bound (also through nested loops and linear expressions of the "
    "induction variable, and strict increase through inner loops that must run at least once), strictly decreasing remainder with 0 < step <= value, input-driven loops that leave on the exhausted outcome of a read-like call "
    "whose non-exhausted outcome is shown to consume input (I/O-level contracts, or derived: every such return of the callee lies behind a successful read_bits(n >= 1)), terminated-string / sentinel-array scans, "
    "list walks; six listed exceptions with reasons and support rules; recursion confined to match_glob and the depth-2 MacBinary pass-through; allocation sizes in lib/ are linear forms over admissible "
    "symbols with the 1 MiB ceiling an available fact at the header reallocation, decoder state size summed over all decoder types (<= 4 MiB); sticky flags; 256 KiB bound of the self-extractor scan. "
    "This found the hang of the read-based skip fallback at end of input (fixed in repo commit eaeb14e); the suite has a single truncated archive read through a seekable file, so a hang could only show as a runner timeout. "
    "Not decided: the linear step budget and the heap peak as numbers; read-driven loops assume the stream eventually reports exhaustion.",
    "Trusted: clang 14 front end; LLVM sroa/early-cse; irx; loops.py classes and the read-like function table; listed exceptions E-* with their reasons (printed in the evidence); strings and sentinel arrays are terminated, lists acyclic.",
    "static analysis: loop-termination classifier (induction-variable / ranking-function witnesses from SSA + branch facts), call-graph cycle check, allocation-size provenance via linear forms on LLVM IR (custom checker)", "DESIGN.md §3 C13, §2 E8")

CLAIMED["C09"] = ("other",
    "Abstract interpretation of the fully inlined init/read entry points of all 11 decoder units (12 decoder types, 14 method names): integer intervals with sign-split memory invariants, pointer regions with "
    "sub-object (struct field / array) bounds, per-edge branch refinement, threshold widening with a descending phase, trip-count and lock-step bounds for counted loops, unit-wide field/array invariants "
    "iterated to a fixed point, exact reads of constant tables. Contracts K1 (extra area and output buffer sizes from each decoder type's own initialiser; extra_size >= sizeof(state) checked) and K2 (input "
    "callbacks write/return at most the requested length). About 4200 enumerated obligations: every load, store, memcpy/memset and callback write; ~96% machine-discharged, the rest under named assumptions with "
    "checked support rules (A-tree: Huffman tree build invariant; A-bits: bit-reader fill level; A-lh1-tree / A-lh1-offset: the -lh1- adaptive tree and offset tables - NOT verified, stated plainly) and the pm1 "
    "byte-decode trees discharged by an exhaustive table walk; at each of the 57 call sites of the tree builders the length passed is the element count of the array passed; an assumption never covers an access whose "
    "own guard bounds the index by a constant reaching past the array. 'No read returns more than asked' for the decoders is the K1-sized output buffer obligation; for lha_decoder_read it is C14.R2. "
    "Found the -pm2- copy_decode overrun (fixed, repo commit 8a05b58). The suite decodes only encoder-produced streams; over-subscribed tables and out-of-range symbols never occur in it.",
    "Trusted: clang 14 front end; LLVM sroa/inline/simplifycfg/early-cse; irx; sa/lhsa/range.py (soundness of the abstract domain); contracts K1/K2 on foreign code; the named assumptions printed in the evidence.",
    "static analysis: abstract interpretation (intervals + pointer regions + relational trip-count bounds) over inlined LLVM IR with enumerated memory-safety obligations (custom checker)", "DESIGN.md §3 C09, §2 E3, Appendix C")

CLAIMED["C08"] = ("other",
    "Static memory-safety analysis outside the decompressors (claimed in part): the RANGE abstract interpreter, extended with symbolic linear bounds (contract results, branch facts, min shapes, loop-exit values, "
    "inductive phi bounds, load canonicalisation), proves every access to an object of known extent in the stream, reader, MacBinary, decoder-wrapper, header and CLI units - including the inductive invariant "
    "leadin_len <= 24 of the self-extractor scan and the (pointer, length) contracts of the read functions; available-facts rules show that extended-header decoders run only with data_len >= min_len, that a "
    "reallocated header is published before any return, that released pointer fields are cleared before reuse, that the header is freed only at reference count zero, and that nullable header strings are used "
    "only under a non-NULL fact (six listed sites rest on the presence rule C12.R5). NOT decided: accesses to objects of unknown extent (C strings, libc objects, the realloc'ed raw header data) are counted by "
    "category in the evidence, not proven; for raw header data the guards are shown to be in force (C12) but their arithmetic sufficiency is not decided; aborts inside libc.",
    "Trusted: clang 14 front end; LLVM passes; irx; range.py + sym.py (soundness of intervals and of the linear reasoning, which assumes object sizes below 2^63 and that foreign callbacks do not modify library objects); "
    "named assumptions A-libc-tm, A-decoder-clamp (supported by C14), A-rawdata (supported by C12), A-present:* (supported by C12.R5).",
    "static analysis: abstract interpretation with symbolic linear bounds + available-facts / typestate rules (realloc publication, free-then-clear, null-guarded use) on LLVM IR (custom checker)", "DESIGN.md §3 C08")

CLAIMED["C06"] = ("other",
    "Static wiring analysis of the extraction metadata (claimed IN PART): at every call site of the arch-layer setters outside the arch layer the value passed is the header field of that "
    "meaning - lha_arch_utime gets header->timestamp and only when it is non-zero; lha_arch_chown gets (unix_uid, unix_gid) of one header in this order under that header's UNIX_UID_GID flag; "
    "lha_arch_chmod gets unix_perms under the UNIX_PERMS flag; lha_arch_fopen for member data gets -1 exactly when the flag is clear and the header's value otherwise; a file's time is set only "
    "after a successful decode (behind the fclose of the output); a directory is created 0700 when permissions are recorded and 0777 otherwise - and inside the arch layer utime receives "
    "actime = modtime = the timestamp, chown/fchown receive (uid, gid) in order, fchown precedes fchmod on the descriptor just opened. Also: the MacBinary envelope is recognised only when length >= 128, version 0 and "
    "the embedded name equals the member's name over exactly its length; the wildcard matcher conforms to the glob transducer (E9: '*' advances the string only after the rest failed there, '?' and literals consume one "
    "byte of each, end only with end); the reader's advance rules of C15 (no member dropped around re-presented directories). These are necessary conditions of 'every file has its "
    "recorded modification time and, when recorded, its permission bits [and owner]'; a swapped uid/gid or a wrong flag passes the suite (which checks one or two names per archive) but changes "
    "the operand of the call and is reported. NOT decided, stated plainly: file contents, path construction and parent directories, when directories receive their metadata relative to their "
    "children, overwrite policy, the print command, what MacBinary stripping removes - the behavioural clauses of C06 are left to the suite.",
    "Trusted: clang 14 front end; LLVM sroa/early-cse; irx; the Python fact engine; the flag values 0x01 / 0x02 of lib/public/lha_file_header.h as the meaning of the bits (tied to the decoders by C05 R3).",
    "static analysis: call-site operand provenance (value sources with their path facts) and guarded-site rules on LLVM IR (custom checker)", "DESIGN.md §3 C06")

CLAIMED["C16"] = ("other",
    "Static analysis of lib/lha_input_stream.c on its fully inlined form (claimed IN PART: the window discipline, for every prefix length at once). The self-extractor scan examines "
    "position i of the lead-in buffer only while i + K < leadin_len with K at least the largest byte offset read at a position (signature bytes, both marker strings), so no byte the "
    "source did not deliver decides a match wherever the refill boundaries fall; when a round ends, the bytes dropped from the buffer, the bytes added to the file position and the "
    "number of positions tested are the same value, and on a match exactly the bytes before the matching position are dropped; each refill writes capacity - leadin_len bytes at "
    "leadin + leadin_len and adds the delivered count; buffered bytes are replayed first (min(request, leadin_len), offset 0), dropped, the source read continues right behind them and "
    "the call succeeds iff the request was filled; the read-based skip subtracts what was delivered, never asks for more than remains and succeeds only at zero; the FILE* skip seeks by "
    "the requested count from the current position, passed without narrowing below long, and its fread fallback demands every byte it subtracts; a marker literal is compared over exactly its length; '-' opens standard input and any other name a read-only fopen. The suite tries "
    "seven prefix lengths and one pipe; an off-by-one in the window or the discard passes it and changes a linear form here. NOT decided: which byte patterns are signatures or markers, "
    "the decoy counter, the 256 KiB limit as a number (C13 R4), and the equality of member sequences as such.",
    "Trusted: clang 14 front end; LLVM sroa/inline/early-cse; irx; the Python fact engine and the small linear-form evaluator of props/c16.py; memcmp/fseek/fread semantics.",
    "static analysis: loop-shape recovery, linear index forms of every buffer access, guarded-site and operand-provenance rules on fully inlined LLVM IR (custom checker)", "DESIGN.md §3 C16")

NOT_APPLICABLE = {
    "C01": "decode exactness is an equality of runtime byte streams produced by table-driven Huffman state machines; no structural clause is a necessary condition the tests leave open (DESIGN §4)",
    "C02": "lock-step of the adaptive -lh1- tree with LZHUF is an equality over runtime symbol histories (tie-break order, rebuild threshold are value computations); not decidable by static analysis in reach (DESIGN §4)",
    "C03": "byte-exact decoding of -lzs-/-lz5- is runtime behaviour; the stored-method clause is decidable but already pinned by the suite (DESIGN §4)",
    "C04": "byte-exact decoding of -pm1-/-pm2- (move-to-front history, rebuild schedule, position-dependent ranges) is an equality of runtime values (DESIGN §4)",
    "C19": "byte-exact rendering of runtime values (ratios, widths, six-month boundary, 32-bit totals); the structural part is exactly what the recorded listings of the suite pin (DESIGN §4)",
}
PENDING = {} if True else {
    # properties whose checks are being built; listed as not applicable until the check is registered
    "C05": "check under construction in this tree (field-extraction tables via static analysis); not yet registered",
    "C07": "check under construction (verdict wiring via facts dataflow); not yet registered",
    "C08": "check under construction (range analysis); not yet registered",
    "C09": "check under construction (range analysis); not yet registered",
    "C10": "check under construction (call-graph reachability); not yet registered",
    "C11": "check under construction; not yet registered",
    "C13": "check under construction (loop termination classifier); not yet registered",
    "C14": "check under construction; not yet registered",
    "C15": "check under construction (global-state classification); not yet registered",
    "C17": "check under construction (GF(2) bit-matrix evaluation); not yet registered",
    "C18": "check under construction (taint analysis); not yet registered",
    "C20": "check under construction (ownership typestate); not yet registered",
}

def main():
    checks = []
    for pid in sorted(CLAIMED):
        lvl, text, note, tech, ref = CLAIMED[pid]
        # the check's own statement of what it decides (written into its evidence on every run) is the authoritative text
        evp = os.path.join(os.path.dirname(os.path.dirname(os.path.abspath(__file__))), "evidence", pid + ".json")
        if os.path.exists(evp):
            try:
                ex = json.load(open(evp))["coverage"].get("explanation")
                if ex:
                    text = ex
            except Exception:
                pass
        if "§10" not in ref:
            ref = ref + "; §10 (as built); RULES.md"
        checks.append({
            "property_id": pid,
            "quick_cmd": "./check %s --tier quick" % pid,
            "thorough_cmd": "./check %s --tier thorough" % pid,
            "evidence_file": "evidence/%s.json" % pid,
            "replay_cmd_template": "./check %s --replay {path}" % pid,
            "engine": "lhsa",
            "level_claimed": {"category": lvl, "text": text, "design_ref": ref},
            "level_note": note,
            "technique": tech,
        })
    na = [{"property_id": k, "reason": v} for k, v in sorted({**NOT_APPLICABLE, **{k: v for k, v in PENDING.items() if k not in CLAIMED}}.items())]
    m = {
        "version": 1,
        "setup_cmd": "./setup.sh",
        "hooks": {"guard": "LHASA_VERIF", "enable": "no hooks are needed: the checks analyse the unmodified sources (guard declared, unused)",
                  "baseline_off_cmd": "make -C /repo -j8 check", "source_commits": [], "add_only": True},
        "engines": [{"name": "lhsa", "path": "sa/lhsa", "serves_properties": sorted(CLAIMED),
                     "kind_free_text": "custom static analyser: /repo is compiled to LLVM IR with its own flags on every run, exported to JSON (sa/irx) and checked by Python rule engines (facts dataflow, path states, call graph, taint, ownership, GF(2), ranges, loops)"}],
        "checks": checks,
        "not_applicable": na,
        "notes": "All checks are static: they never execute lhasa. ./check <id> rebuilds the IR views from /repo's working tree in a fresh temp dir (removed on exit). exit 2 + ANALYSIS-BROKEN = an anchor vanished (neither pass nor violation).",
    }
    json.dump(m, open(os.path.join(HERE, "MANIFEST.json"), "w"), indent=1)

if __name__ == "__main__":
    main()
