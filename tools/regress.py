#!/usr/bin/env python3
"""Regression matrix of the checks against the stored seeded changes and negative controls.

For every /verif/seeded/<name>/patch.diff: copy /repo's sources to a scratch directory outside /repo and /verif,
apply the patch there, run the checks with LHSA_REPO pointing at the copy (evidence goes to the scratch dir), remove the copy.
  seeds (C..)      : run the property's own check plus every check named in meta.caught_by; expected: at least one reports a violation
  negatives (N..)  : run all checks; expected: all silent (exit 0)
Writes /verif/seeded/MATRIX.md and MATRIX.json. Usage: tools/regress.py [names...]
"""
import json, os, re, shutil, subprocess, sys, tempfile
from concurrent.futures import ThreadPoolExecutor

VERIF = os.path.dirname(os.path.dirname(os.path.abspath(__file__)))
REPO = "/repo"
ALL = [c["property_id"] for c in json.load(open(os.path.join(VERIF, "MANIFEST.json")))["checks"]]


def run_one(name):
    d = os.path.join(VERIF, "seeded", name)
    meta = json.load(open(os.path.join(d, "meta.json")))
    scratch = tempfile.mkdtemp(prefix="lhsa_rg_%s_" % name)
    try:
        subprocess.run(["rsync", "-a", "--exclude", ".git", "--exclude", "*.o", "--exclude", "*.lo", "--exclude", ".libs", "--exclude", "test/",
                        REPO + "/", scratch + "/src_tree/"], check=True)
        tree = os.path.join(scratch, "src_tree")
        r = subprocess.run(["git", "apply", os.path.join(d, "patch.diff")], cwd=tree, capture_output=True, text=True)
        if r.returncode != 0:
            return name, {"error": "patch does not apply: %s" % r.stderr.strip()[:200]}
        if name.startswith("N"):
            props = ALL
        else:
            props = sorted({meta["property"]} | {m.group(0) for c in meta.get("caught_by", []) for m in [re.match(r"C\d\d", c)] if m})
        res = {}
        env = dict(os.environ, LHSA_REPO=tree, LHSA_EVIDENCE=os.path.join(scratch, "ev"))
        for p in props:
            pr = subprocess.run([os.path.join(VERIF, "check"), p], env=env, capture_output=True, text=True)
            rules = sorted(set(re.findall(r"violated: rule=(\S+)", pr.stdout)))
            res[p] = {"rc": pr.returncode, "rules": rules, "broken": sorted(set(re.findall(r"ANALYSIS-BROKEN property=\S+ rule=(\S+)", pr.stdout)))}
        return name, {"kind": "negative" if name.startswith("N") else "seed", "property": meta.get("property"), "results": res}
    finally:
        shutil.rmtree(scratch, ignore_errors=True)


def main():
    names = sys.argv[1:] or sorted(n for n in os.listdir(os.path.join(VERIF, "seeded")) if os.path.isfile(os.path.join(VERIF, "seeded", n, "patch.diff")))
    with ThreadPoolExecutor(max_workers=4) as ex:
        out = dict(ex.map(run_one, names))
    bad = 0
    lines = ["| change | kind | property | verdicts |", "|---|---|---|---|"]
    for n in names:
        r = out[n]
        if "error" in r:
            lines.append("| %s | ? | ? | ERROR %s |" % (n, r["error"]))
            bad += 1
            continue
        if r["kind"] == "seed":
            caught = {p: v for p, v in r["results"].items() if v["rc"] == 1 and v["rules"]}
            meta = json.load(open(os.path.join(VERIF, "seeded", n, "meta.json")))
            verdict = "; ".join("%s %s" % (p, ",".join(v["rules"])) for p, v in sorted(caught.items())) or ("missed (documented limit)" if meta.get("expected_miss") else "MISSED")
            if not caught and not meta.get("expected_miss"):
                bad += 1
        else:
            ki = json.load(open(os.path.join(VERIF, "seeded", n, "meta.json"))).get("known_imprecision", {})
            alarms = {p: v for p, v in r["results"].items() if v["rc"] != 0}
            noisy = {p: v for p, v in alarms.items() if p not in ki}
            doc = {p: v for p, v in alarms.items() if p in ki}
            fmt = lambda d: "; ".join("%s rc=%d %s%s" % (p, v["rc"], ",".join(v["rules"]), ",".join(v["broken"])) for p, v in sorted(d.items()))
            verdict = "all %d checks silent" % len(r["results"]) if not alarms else ""
            if doc:
                verdict += "%d checks silent; documented imprecision (feature control): %s" % (len(r["results"]) - len(alarms), fmt(doc))
            if noisy:
                verdict += (" ; " if verdict else "") + "FALSE ALARM " + fmt(noisy)
                bad += 1
        lines.append("| %s | %s | %s | %s |" % (n, r["kind"], r.get("property") or "-", verdict))
    if not sys.argv[1:]:
        open(os.path.join(VERIF, "seeded", "MATRIX.md"), "w").write("\n".join(lines) + "\n")
        json.dump(out, open(os.path.join(VERIF, "seeded", "MATRIX.json"), "w"), indent=1)
    print("\n".join(lines))
    return 1 if bad else 0


if __name__ == "__main__":
    sys.exit(main())
