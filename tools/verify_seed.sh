#!/bin/sh
# usage: verify_seed.sh <seed-name e.g. C12a> <property>
# Confirms independently, in a fresh scratch worktree, that the seeded change
# (1) applies and builds, (2) passes the repo's test suite, (3) makes the demo fail,
# and that the demo passes on the unchanged tree.  Then stores it under /verif/seeded/<name>/.
n="$1"; prop="$2"
src=/tmp/seed/$n/_seed
wt=/tmp/vs_$n
log=/tmp/vs_$n.log
RUNNER=sh; head -1 "$src/run.sh" | grep -q bash && RUNNER=bash
rm -rf "$wt"; git -C /repo worktree prune
/verif/tools/mkscratch.sh "$wt" >/dev/null || exit 2
cd "$wt" || exit 2
{
echo "== seed $n property $prop"
make -j8 >/dev/null 2>&1; echo "build(orig) rc=$?"
$RUNNER "$src/run.sh" "$wt" >"$wt/demo_orig.out" 2>&1; d0=$?; echo "demo(orig) rc=$d0"
git apply "$src/patch.diff"; echo "apply rc=$?"
make -j8 >/dev/null 2>&1; b=$?; echo "build(patched) rc=$b"
make -j8 check > "$wt/check.out" 2>&1
pass=$(grep -c '^PASS:' "$wt/check.out"); fail=$(grep -cE '^(FAIL|ERROR):' "$wt/check.out")
echo "suite(patched) pass=$pass fail=$fail"
$RUNNER "$src/run.sh" "$wt" >"$wt/demo_patched.out" 2>&1; d1=$?; echo "demo(patched) rc=$d1"
if [ "$d0" = 0 ] && [ "$d1" != 0 ] && [ "$pass" = 10 ] && [ "$fail" = 0 ] && [ "$b" = 0 ]; then
  echo "CONFIRMED"
  mkdir -p /verif/seeded/$n
  cp -r "$src"/* /verif/seeded/$n/
  tail -5 "$wt/demo_patched.out" > /verif/seeded/$n/demo_patched.tail.txt
else
  echo "NOT-CONFIRMED"
fi
} > "$log" 2>&1
cd /; git -C /repo worktree remove --force "$wt"; rm -rf "$wt"
cat "$log"
