#!/usr/bin/env python3
"""Process a batch of sub-agent deliveries under /tmp/seed/<name>/_seed:
   seeds (C..): tools/verify_seed.sh <name> <prop> (fresh worktree: demo passes on the unchanged tree, patch applies/builds, suite 10/10, demo fails)
   negatives (N..): patch applies, builds, suite 10/10 in a fresh worktree; copied to /verif/seeded/<name>/
   then a stub meta.json is written where missing and tools/regress.py is run on the batch.
   usage: process_batch.py NAME[:one-line description] ..."""
import json, os, re, subprocess, sys
from concurrent.futures import ThreadPoolExecutor
V = os.path.dirname(os.path.dirname(os.path.abspath(__file__)))


def head():
    return subprocess.run(["git", "-C", "/repo", "rev-parse", "--short", "HEAD"], capture_output=True, text=True).stdout.strip()


def seed(n):
    prop = n[:3]
    r = subprocess.run([os.path.join(V, "tools", "verify_seed.sh"), n, prop], capture_output=True, text=True, cwd="/tmp")
    return n, "CONFIRMED" in r.stdout.split("NOT-CONFIRMED")[0] and "NOT-CONFIRMED" not in r.stdout, r.stdout[-600:]


def neg(n):
    wt = "/tmp/vn_" + n
    sh = ("rm -rf {wt}; {v}/tools/mkscratch.sh {wt} >/dev/null 2>&1; cd {wt} && git apply /tmp/seed/{n}/_seed/patch.diff && make -j6 >/dev/null 2>&1 && make -j6 check > check.out 2>&1; "
          "echo pass=$(grep -c '^PASS:' check.out) fail=$(grep -cE '^(FAIL|ERROR):' check.out); cd /; git -C /repo worktree remove --force {wt}; rm -rf {wt}").format(wt=wt, v=V, n=n)
    r = subprocess.run(["sh", "-c", sh], capture_output=True, text=True)
    ok = "pass=10 fail=0" in r.stdout
    if ok:
        dst = os.path.join(V, "seeded", n)
        os.makedirs(dst, exist_ok=True)
        subprocess.run("cp -r /tmp/seed/%s/_seed/* %s/" % (n, dst), shell=True)
        for f in os.listdir(dst):          # keep the stored control small
            p = os.path.join(dst, f)
            if os.path.isfile(p) and os.path.getsize(p) > 300000:
                os.remove(p)
    return n, ok, r.stdout[-300:]


def main():
    items = [a.split(":", 1) for a in sys.argv[1:]]
    names = [i[0] for i in items]
    desc = {i[0]: (i[1] if len(i) > 1 else "") for i in items}
    with ThreadPoolExecutor(max_workers=5) as ex:
        res = list(ex.map(lambda n: neg(n) if n.startswith("N") else seed(n), names))
    subprocess.run(["git", "-C", "/repo", "worktree", "prune"])
    base = head()
    good = []
    for n, ok, tail in res:
        print("%s: %s" % (n, "ok" if ok else "NOT CONFIRMED\n" + tail))
        if not ok:
            continue
        good.append(n)
        mp = os.path.join(V, "seeded", n, "meta.json")
        if os.path.exists(mp):
            continue
        if n.startswith("N"):
            d = {"control": n, "kind": "negative control: behaviour-preserving refactoring; every check must stay silent", "change": desc[n],
                 "confirmed_by": "sub-agent differential harness (identical output checksum on original and refactored tree, see notes.md); patch applied, built and suite 10/10 in a fresh scratch worktree",
                 "false_alarms_found_and_corrected": [], "result_now": "", "repo_base_commit": base, "origin": "independent sub-agent given only a list of files and a scratch worktree"}
        else:
            d = {"seed": n, "property": n[:3], "change": desc[n], "needs_to_manifest": "see notes.md",
                 "confirmed_by": "tools/verify_seed.sh %s %s: fresh scratch worktree; demo exits 0 on the unchanged tree; patch applies and builds; make check 10/10 PASS with the patch; demo exits non-zero with the patch" % (n, n[:3]),
                 "caught_by": [], "repo_base_commit": base, "origin": "independent sub-agent given only the property text and a scratch worktree"}
        json.dump(d, open(mp, "w"), indent=1)
    if good:
        subprocess.run([os.path.join(V, "tools", "regress.py")] + good)


if __name__ == "__main__":
    main()
