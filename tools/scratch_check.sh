#!/bin/sh
# usage: scratch_check.sh [-k dir] <abs patch.diff> <prop> [prop...]
# rsync copy of /repo (never /repo itself), apply patch, run checks with LHSA_REPO; -k keeps the copy at <dir> for debugging
keep=""
if [ "$1" = "-k" ]; then keep="$2"; shift 2; fi
p="$1"; shift
s=${keep:-$(mktemp -d /tmp/lhsa_sc_XXXXXX)}
mkdir -p "$s"
rsync -a --delete --exclude .git --exclude '*.o' --exclude '*.lo' --exclude .libs --exclude test/ /repo/ "$s/src_tree/"
( cd "$s/src_tree" && git apply "$p" ) || { echo "patch does not apply"; [ -z "$keep" ] && rm -rf "$s"; exit 2; }
for id in "$@"; do
  out=$(LHSA_REPO="$s/src_tree" LHSA_EVIDENCE="$s/ev" /verif/check "$id" 2>&1); rc=$?
  echo "== $id rc=$rc"
  echo "$out" | grep -E "violated:|ANALYSIS-BROKEN|KNOWN-FINDING|^OK" | cut -c1-${WIDTH:-420}
done
[ -z "$keep" ] && rm -rf "$s"
exit 0
