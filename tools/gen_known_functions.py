#!/usr/bin/env python3
"""Snapshot the names of all functions defined in /repo (lib + src) into sa/lhsa/known_functions.txt.
The snapshot is the reference for 'a function that the rules name no longer exists' (analysis broken, exit 2), as opposed to a name that
never was a function.  Regenerate only when the rules are re-confirmed against a new reference tree."""
import os, re, subprocess, sys
V = os.path.dirname(os.path.dirname(os.path.abspath(__file__)))
sys.path.insert(0, os.path.join(V, "sa"))
from lhsa.build import Views, LLVM_LINK
with Views() as v:
    linked = os.path.join(v.dir, "all.bc")
    subprocess.run([LLVM_LINK] + [v.units[k] for k in sorted(v.units)] + ["-o", linked], check=True)
    out = subprocess.run(["llvm-nm-14", "--defined-only", linked], capture_output=True, text=True, check=True).stdout
    from lhsa.build import IRX
    from lhsa.ir import Module
    from lhsa.fingerprint import fingerprint
    import json
    js = os.path.join(v.dir, "all.json")
    subprocess.run([IRX, linked, js], check=True)
    m = Module(js)
    fps = {}
    for f in m.defined():
        fps.setdefault(f.cname, []).append(fingerprint(f))
    json.dump({k: sorted(set(x)) for k, x in sorted(fps.items())}, open(os.path.join(V, "sa", "lhsa", "known_fingerprints.json"), "w"), indent=0)
    from lhsa.fingerprint import features
    feats = {}
    for f in m.defined():
        feats.setdefault(f.cname, set()).update(repr(x) for x in features(f))
    json.dump({k: sorted(x) for k, x in sorted(feats.items())}, open(os.path.join(V, "sa", "lhsa", "known_features.json"), "w"), indent=0)
    # struct layouts of the project's own types (for recognising a pure field rename and for 'a field the rules name is gone')
    types = {}
    for k, t in m.types.items():
        if isinstance(t, dict) and t.get("k") == "struct" and t.get("fields") and not t.get("opaque") and all("name" in f for f in t["fields"]):
            if k.startswith("%struct._IO") or k.startswith("%struct.__") or k in ("%struct.stat", "%struct.timespec", "%struct.tm", "%struct.utimbuf"):
                continue
            types[k] = [[f["name"], f["off"], f["ty"]] for f in t["fields"]]
    json.dump(types, open(os.path.join(V, "sa", "lhsa", "known_types.json"), "w"), indent=0, sort_keys=True)
    # enumerations of the project's own sources, in declaration order
    ens = []
    for et in json.load(open(js)).get("enum_types", []):
        f = et.get("file", "")
        if f.startswith("/usr") or not et.get("elems"):
            continue
        ens.append({"name": et.get("name", ""), "file": os.path.basename(f), "elems": et["elems"]})
    json.dump(ens, open(os.path.join(V, "sa", "lhsa", "known_enums.json"), "w"), indent=0)
names = sorted({re.sub(r"\.\d+$", "", l.split()[-1]) for l in out.splitlines() if len(l.split()) >= 2 and l.split()[-2] in ("T", "t")})
open(os.path.join(V, "sa", "lhsa", "known_functions.txt"), "w").write("\n".join(names) + "\n")
print(len(names), "functions")
