#!/bin/sh
# usage: check_sweep.sh NAME PROP  -- a delivered "warning clean-up sweep" under /tmp/seed/NAME/_seed: patch.diff must be reported by PROP's check,
# benign.diff (the same sweep without the breaking edit) must leave all checks silent
n="$1"; p="$2"
d=/tmp/seed/$n/_seed
echo "### $n breaking patch vs $p"
/verif/tools/scratch_check.sh $d/patch.diff $p | grep -v KNOWN | cut -c1-260 | head -4
echo "### $n benign sweep vs all checks"
/verif/tools/scratch_check.sh $d/benign.diff C05 C06 C07 C08 C09 C10 C11 C12 C13 C14 C15 C16 C17 C18 C20 | grep -E "rc=[12]|violated|BROKEN" | cut -c1-260
