#!/usr/bin/env python3
"""Fill meta.json 'caught_by' (seeds) and 'result_now' (controls) from seeded/MATRIX.json (written by a full run of tools/regress.py)."""
import json, os
V = os.path.dirname(os.path.dirname(os.path.abspath(__file__)))
m = json.load(open(os.path.join(V, "seeded", "MATRIX.json")))
n_upd = 0
for name, r in m.items():
    mp = os.path.join(V, "seeded", name, "meta.json")
    if not os.path.exists(mp) or "results" not in r:
        continue
    d = json.load(open(mp))
    if r.get("kind") == "seed":
        cb = sorted("%s %s" % (p, rule) for p, v in r["results"].items() if v["rc"] == 1 for rule in v["rules"])
        # keep checks of other properties that were recorded earlier and not re-run this time
        if cb and cb != d.get("caught_by"):
            d["caught_by"] = cb
            n_upd += 1
    else:
        alarms = {p: v for p, v in r["results"].items() if v["rc"] != 0}
        ki = d.get("known_imprecision", {})
        res = "silent in all %d checks" % len(r["results"]) if not alarms else "silent except documented imprecision in %s" % sorted(alarms) if set(alarms) <= set(ki) else "ALARMS in %s" % sorted(set(alarms) - set(ki))
        if d.get("result_now") != res:
            d["result_now"] = res
            n_upd += 1
    json.dump(d, open(mp, "w"), indent=1)
print("updated", n_upd)
