#!/bin/sh
# usage: mkscratch.sh <dir>  -- scratch git worktree of /repo with the generated
# autotools files copied in (so that `make` works without re-running configure).
set -e
d="$1"
git -C /repo worktree add --detach "$d" HEAD >/dev/null 2>&1
rsync -a --ignore-existing --exclude .git --exclude '*.o' --exclude '*.lo' --exclude '*.la' --exclude '*.a' \
  --exclude '.libs' --exclude '*.log' --exclude '*.trs' --exclude 'src/lha' --exclude 'src/test-lha' /repo/ "$d"/
# keep timestamps sane so make does not re-run automake
find "$d" -name Makefile.in -o -name configure -o -name aclocal.m4 -o -name config.hin | xargs touch
sleep 1
find "$d" -name config.status -o -name Makefile -o -name config.h -o -name stamp-h1 | xargs touch
echo "$d"
