#!/bin/sh
# usage: try_patch.sh <patch.diff> <prop> [prop...]   -- apply patch to /repo, run checks, always revert
p="$1"; shift
cd /repo || exit 2
if ! git diff --quiet -- lib src; then echo "/repo has local changes, refusing"; exit 2; fi
git apply "$p" || { echo "patch does not apply"; exit 2; }
for id in "$@"; do
  out=$(/verif/check "$id" 2>&1); rc=$?
  echo "== $id rc=$rc"
  echo "$out" | grep -E "violated:|ANALYSIS-BROKEN|KNOWN-FINDING|^OK" | cut -c1-420
done
git -C /repo checkout -- lib src
